#!/usr/bin/env python3
"""seed_meta.py <seed id> <property> <breaks> <needs> <detected_by ;-separated> [<missed_by ;-separated>] [<remark>]"""
import json, sys, os
sid, prop, breaks, needs, det = sys.argv[1:6]
mis = sys.argv[6] if len(sys.argv) > 6 else ""
rem = sys.argv[7] if len(sys.argv) > 7 else ""
m = dict(property=prop, breaks=breaks, needs=needs,
         detected_by=[x.strip() for x in det.split(";") if x.strip()],
         missed_by=[x.strip() for x in mis.split(";") if x.strip()],
         verified="patch applies to HEAD of /repo, builds with all features, default-feature suite 837 passed / 0 failed and all-features suite 3191 / 0 with the change, demo seed_demo.rs passes without and fails with the change (confirmed in the scratch worktree with tools/verify_seed.sh)",
         files=["patch.diff", "seed_demo.rs", "notes.md"],
         how_to_run=f"tools/try_mutant.sh /verif/seeded/{sid}/patch.diff {prop}")
if rem: m["disposition"] = rem
d = f"/verif/seeded/{sid}"; os.makedirs(d, exist_ok=True)
json.dump(m, open(d + "/meta.json", "w"), indent=1); print("wrote", d + "/meta.json")
