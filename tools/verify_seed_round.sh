#!/bin/bash
# verify_seed4.sh <Cxx> <A|B> [features]  — round-4 seeds: /tmp/seed${ROUND:-4}/<Cxx>/SEED_<X>/ -> seeded/<Cxx>-r4<x>/
set -u
p=$1; x=$2; feat=${3:-}
wt=/tmp/seed${ROUND:-4}/$p
lx=$(echo $x | tr 'AB' 'ab')
[ -d $wt/SEED_$x ] || { echo "no $wt/SEED_$x"; exit 3; }
rm -rf $wt/SEED; cp -r $wt/SEED_$x $wt/SEED
if [ -z "$feat" ]; then
  grep -qiE "features? .*serialize|--features serialize" $wt/SEED/seed_demo.rs && feat=serialize
  grep -qiE "async-tokio" $wt/SEED/seed_demo.rs && feat="${feat:+$feat,}async-tokio"
  grep -qiE "overlapped-lists" $wt/SEED/seed_demo.rs && feat="${feat:+$feat,}overlapped-lists"
  grep -qiE "features.*encoding|--features encoding" $wt/SEED/seed_demo.rs && feat="${feat:+$feat,}encoding"
fi
echo "### $p-r${ROUND:-4}$lx (features for demo: ${feat:-none})"
/verif/tools/verify_seed.sh $wt $p-r${ROUND:-4}$lx "$feat"
( cd $wt && git checkout -q -- . ; rm -f tests/seed_demo.rs; rm -rf SEED )
