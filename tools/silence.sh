#!/bin/bash
# silence.sh [tier] [seeds...] — run every check of the manifest with several seeds on the current
# tree; prints one line per (check, seed) that did not exit 0 or printed VIOLATION; "SILENT" if none.
cd /verif || exit 3
tier=${1:-quick}; shift
seeds=${*:-"1 2 3 7 11 1234567 2147483647 9223372036854775813"}
bad=0
ids=$(python3 -c "import json; print(' '.join(c['property_id'] for c in json.load(open('MANIFEST.json'))['checks']))")
for seed in $seeds; do
  for id in $ids; do
    out=$(VERIF_SEED=$seed QXV_EVIDENCE_DIR=/tmp/silence-ev ./run.sh $tier $id 2>&1); rc=$?
    if [ $rc -ne 0 ] || echo "$out" | grep -q '^VIOLATION'; then bad=$((bad+1)); echo "NOT SILENT: $id seed=$seed rc=$rc: $(echo "$out" | grep -m1 'violation in stage\|INCONCLUSIVE' | cut -c1-300)"; fi
  done
  echo "seed $seed done"
done
[ $bad -eq 0 ] && echo "SILENT: all checks, seeds: $seeds"
