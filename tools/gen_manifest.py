#!/usr/bin/env python3
"""Regenerates /verif/MANIFEST.json from the table below (kept in one place so that the manifest
is always valid and always agrees with what `qxv list` implements)."""
import json, subprocess, os, sys
ROOT = os.path.dirname(os.path.dirname(os.path.abspath(__file__)))

CHECKS = {
 "C01": dict(cat="exploration", tech="bounded-exhaustive enumeration + proptest + seeded mutation against a reference tokenizer/config model (differential)",
   text="Every string <=6 (thorough 7-8) bytes over the 13 markup bytes, every sequence of <=4 (5) tokens over a 27-token alphabet, the repository corpus under all 128 configurations, 200k (3M) proptest soups and 300k (5M) mutated documents are read with the borrowing reader and every record (kind, raw content, name split, error kind and payload, position, error position) is compared with an independent byte-at-a-time reference tokenizer plus the documented effect of the switches. Exploration: holds on everything enumerated/generated, nothing beyond.",
   note="Trusts refxml/cfgmodel (my reading of the documentation, validated against the tree on 5.7M strings in the design phase). DOCTYPE bodies with quotes/`--` and UTF-16 signatures are excluded and counted.", ref="DESIGN.md section 4, C01"),
}

NOT_YET = {}

def main():
    props = [json.loads(l) for l in open(os.path.join(ROOT, "properties.jsonl"))]
    ids = [p["id"] for p in props]
    checks = []
    for i in ids:
        if i in CHECKS:
            c = CHECKS[i]
            checks.append({
                "property_id": i,
                "quick_cmd": f"./run.sh quick {i}",
                "thorough_cmd": f"./run.sh thorough {i}",
                "evidence_file": f"/verif/evidence/{i}.json",
                "replay_cmd_template": "./run.sh replay {path}",
                "engine": "qxv",
                "level_claimed": {"category": c["cat"], "text": c["text"], "design_ref": c["ref"]},
                "level_note": c["note"],
                "technique": c["tech"],
            })
    na = [{"property_id": i, "reason": NOT_YET.get(i, "check not built yet in this session (planned: see DESIGN.md section 4); property-based testing applies, nothing is claimed until the check exists")} for i in ids if i not in CHECKS]
    m = {
        "version": 1,
        "setup_cmd": "./run.sh build",
        "hooks": {
            "guard": "quick_xml_verif",
            "enable": "no hooks are needed: every observation goes through quick-xml's public API; the harness depends on /repo by path and is rebuilt by every command",
            "baseline_off_cmd": "cd /repo && cargo test --workspace --no-fail-fast --offline",
            "source_commits": [],
            "add_only": True,
        },
        "engines": [
            {"name": "qxv", "path": "/verif/harness", "serves_properties": [c["property_id"] for c in checks],
             "kind_free_text": "Rust harness (proptest 1.11 TestRunner driven from a binary, own bounded-exhaustive enumerators, harness-owned chunked/async/faulty sources, reference models); built twice: feature set full (serialize, async-tokio, encoding, overlapped-lists) and min (serialize, async-tokio)"},
        ],
        "checks": checks,
        "not_applicable": na,
        "notes": "exit 0 = held on everything explored; exit 1 + `VIOLATION property=<id> replay=<path>`; exit 2 = inconclusive (watchdog/build). Known findings: /verif/known_findings.json.",
    }
    json.dump(m, open(os.path.join(ROOT, "MANIFEST.json"), "w"), indent=1)
    print("wrote MANIFEST.json:", len(checks), "checks,", len(na), "not claimed")

main()
