#!/usr/bin/env python3
"""Rebuilds section 9 of DESIGN.md (between the SEED-TABLE markers) from seeded/*/meta.json."""
import json, glob, os, re
ROOT = os.path.dirname(os.path.dirname(os.path.abspath(__file__)))
rows = []
for f in sorted(glob.glob(os.path.join(ROOT, "seeded", "C*", "meta.json"))):
    m = json.load(open(f)); sid = os.path.basename(os.path.dirname(f))
    det = "; ".join(m.get("detected_by", [])) or "—"
    mis = "; ".join(m.get("missed_by", [])) or "—"
    extra = " ".join(x for x in [m.get("disposition"), m.get("side_finding"), m.get("rebased")] if x)
    rows.append(f"| {sid} | {m['property']} | {m['breaks']} | {m['needs']} | {det} | {mis} | {extra} |")
table = "| seed | property | change | needs, to manifest | caught by | missed by | remarks |\n|---|---|---|---|---|---|---|\n" + "\n".join(rows)
p = os.path.join(ROOT, "DESIGN.md"); s = open(p).read()
a, b = "<!-- SEED-TABLE-BEGIN -->", "<!-- SEED-TABLE-END -->"
if a in s:
    s = s[:s.index(a) + len(a)] + "\n" + table + "\n" + s[s.index(b):]
    open(p, "w").write(s); print("section 9 table rebuilt:", len(rows), "seeds")
else:
    print("markers not found")
