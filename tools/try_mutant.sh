#!/bin/bash
# try_mutant.sh <patch-file> <Cxx> [<Cxx>...]  — apply a patch to /repo, run the quick checks, undo.
# Prints one line per property: CAUGHT / MISSED. Never leaves /repo modified.
set -u
patch=$1; shift
cd /repo || exit 3
if ! git diff --quiet; then echo "/repo has uncommitted changes, refusing"; exit 3; fi
git apply "$patch" || { echo "patch does not apply"; exit 3; }
trap 'git -C /repo checkout -- . ' EXIT
for id in "$@"; do
  out=$(cd ${VERIF_DIR:-/verif} && QXV_EVIDENCE_DIR=/tmp/qxv-mutant-evidence ./run.sh quick "$id" 2>&1); rc=$?
  if [ $rc -eq 1 ] && echo "$out" | grep -q '^VIOLATION'; then echo "$id CAUGHT: $(echo "$out" | grep -m1 'violation in stage' | cut -c1-300)";
  elif [ $rc -eq 0 ]; then echo "$id MISSED";
  else echo "$id rc=$rc: $(echo "$out" | tail -3)"; fi
done
