#!/bin/bash
# rescreen_round.sh <Cxx> : screen both seeds of /tmp/seed$ROUND/<Cxx> again with the CURRENT /verif (scratch copy). Log: /tmp/v9/relog-<Cxx>.txt
p=$1; wt=/tmp/seed${ROUND:-9}/$p; sc=/tmp/v9/$p
export CARGO_NET_OFFLINE=true
exec >/tmp/v9/relog-$p.txt 2>&1
rm -rf $sc; mkdir -p $sc
rsync -a --exclude target --exclude evidence --exclude seeded --exclude .git --exclude 'campaign-*' /verif/ $sc/
sed -i "s#path = \"/repo\"#path = \"$wt\"#" $sc/harness/Cargo.toml
mkdir -p $sc/harness/target
for v in $(/verif/harness/target/full/release/qxv variants $p); do cp -r /verif/harness/target/$v $sc/harness/target/$v; done
for x in A B; do
  lx=$(echo $x | tr 'AB' 'ab'); id=$p-r${ROUND:-9}$lx
  ( cd $wt && git checkout -q -- . && git apply SEED_$x/patch.diff )
  out=$(cd $sc && QXV_EVIDENCE_DIR=/tmp/v9/ev-$p ./run.sh quick $p 2>&1); rc=$?
  if [ $rc -eq 1 ] && echo "$out" | grep -q '^VIOLATION'; then echo "RESCREEN $id CAUGHT: $(echo "$out" | grep -m1 'violation in stage' | cut -c1-400)";
  elif [ $rc -eq 0 ]; then echo "RESCREEN $id MISSED";
  else echo "RESCREEN $id rc=$rc: $(echo "$out" | tail -5)"; fi
  ( cd $wt && git checkout -q -- . )
done
rm -rf $sc /tmp/v9/ev-$p
