#!/bin/bash
# screen_round.sh <Cxx> : confirm (tools/verify_seed.sh) and screen SEED_A / SEED_B of the scratch worktree /tmp/seed$ROUND/<Cxx> with a
# scratch copy of /verif whose harness depends on that worktree (parallel-safe: /repo is not touched). Needs mkdir -p /tmp/v9. Log: /tmp/v9/log-<Cxx>.txt
p=$1; wt=/tmp/seed${ROUND:-9}/$p; sc=/tmp/v9/$p
export CARGO_NET_OFFLINE=true
exec >/tmp/v9/log-$p.txt 2>&1
# scratch copy of the machinery, depending on the worktree instead of /repo
rm -rf $sc; mkdir -p $sc
rsync -a --exclude target --exclude evidence --exclude seeded --exclude .git --exclude 'campaign-*' /verif/ $sc/
sed -i "s#path = \"/repo\"#path = \"$wt\"#" $sc/harness/Cargo.toml
mkdir -p $sc/harness/target
variants=$(/verif/harness/target/full/release/qxv variants $p)
for v in $variants; do cp -r /verif/harness/target/$v $sc/harness/target/$v; done
for x in A B; do
  lx=$(echo $x | tr 'AB' 'ab'); id=$p-r${ROUND:-9}$lx
  [ -f $wt/SEED_$x/patch.diff ] || { echo "### $id: no seed"; continue; }
  feat=$(grep -m1 -oE '^// *features: *.*' $wt/SEED_$x/seed_demo.rs | sed -E 's#^// *features: *##; s/ //g')
  [ "$feat" = none ] && feat=""
  ( cd $wt && git checkout -q -- . ; rm -f tests/seed_demo.rs; rm -rf SEED; cp -r SEED_$x SEED )
  echo "### $id (features for demo: ${feat:-none})"
  /verif/tools/verify_seed.sh $wt $id "$feat"
  echo "== screen with the quick check (patch applied in the worktree)"
  ( cd $wt && git status --short | grep -v '^??' | head -3 )
  out=$(cd $sc && QXV_EVIDENCE_DIR=/tmp/v9/ev-$p ./run.sh quick $p 2>&1); rc=$?
  if [ $rc -eq 1 ] && echo "$out" | grep -q '^VIOLATION'; then echo "SCREEN $id CAUGHT: $(echo "$out" | grep -m1 'violation in stage' | cut -c1-400)";
  elif [ $rc -eq 0 ]; then echo "SCREEN $id MISSED";
  else echo "SCREEN $id rc=$rc: $(echo "$out" | tail -5)"; fi
  ( cd $wt && git checkout -q -- . ; rm -f tests/seed_demo.rs; rm -rf SEED )
done
rm -rf $wt/target $sc/harness/target /tmp/v9/ev-$p
echo "### done $p"
