#!/bin/bash
# run_all_seeds.sh — apply every seeded change (seeded/C*/patch.diff) to /repo in turn, run the quick
# check of its property, revert; prints CAUGHT/MISSED per seed and a summary. Expected MISSED:
# C01-a, C16-r2, C04-r7a, C08-r4b, C06-r6b, C15-r6b, C17-r6a (see their meta.json: deliberately not counted as violations),
# and C03-r2 (unreachable since fix b00d97b).
cd /verif || exit 3
caught=0; missed=""
for d in seeded/C*/; do
  id=$(basename "$d"); prop=$(python3 -c "import json;print(json.load(open('$d/meta.json'))['property'])")
  out=$(tools/try_mutant.sh "/verif/$d/patch.diff" "$prop" 2>&1 | head -1)
  echo "$id: ${out:0:140}"
  if echo "$out" | grep -q CAUGHT; then caught=$((caught+1)); else missed="$missed $id"; fi
done
echo "caught: $caught; not caught:$missed"
