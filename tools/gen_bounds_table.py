#!/usr/bin/env python3
"""Rebuilds the 'what a quick run covers' table of DESIGN.md (between the BOUNDS-TABLE markers)
from the committed evidence files (which are written by the checks themselves)."""
import json, glob, os
ROOT = os.path.dirname(os.path.dirname(os.path.abspath(__file__)))
rows = []
for f in sorted(glob.glob(os.path.join(ROOT, "evidence", "C*.json"))):
    e = json.load(open(f)); c = e["coverage"]
    stages = {}
    for s in c.get("stages", []):
        info = s.get("info", {})
        if "evaluations" in info:
            stages[s["stage"]] = stages.get(s["stage"], 0) + info["evaluations"]
    st = "; ".join(f"{k}: {v:,}" for k, v in stages.items())
    rows.append(f"| {e['property_id']} | {e['tier']} | {'+'.join(sorted(set(c.get('feature_sets', []))))} | {c['evaluations']:,} | {c['distinct_nontrivial']:,} | {e['wall_s']:.0f} | {st} |")
table = "| check | tier | feature sets | evaluations | distinct non-trivial | wall s | stages (evaluations, summed over feature sets) |\n|---|---|---|---|---|---|---|\n" + "\n".join(rows)
p = os.path.join(ROOT, "DESIGN.md"); s = open(p).read()
a, b = "<!-- BOUNDS-TABLE-BEGIN -->", "<!-- BOUNDS-TABLE-END -->"
if a in s:
    s = s[:s.index(a) + len(a)] + "\n" + table + "\n" + s[s.index(b):]
    open(p, "w").write(s); print("bounds table rebuilt:", len(rows))
else:
    print("markers not found")
