#!/bin/bash
# verify_seed.sh <scratch worktree with SEED/> <seed id> [features for demo]
# Confirms independently: patch applies to a clean tree, builds with all features, the default-feature
# test suite passes with it, the demo fails with it and passes without it. Copies the seed to
# /verif/seeded/<id>/ and prints a summary. Does not touch /repo.
set -u
wt=$1; id=$2; feat=${3:-}
cd "$wt" || exit 3
[ -f SEED/patch.diff ] || { echo "no SEED/patch.diff"; exit 3; }
mkdir -p /verif/seeded/$id
cp SEED/patch.diff /verif/seeded/$id/patch.diff
cp SEED/seed_demo.rs /verif/seeded/$id/seed_demo.rs 2>/dev/null
cp SEED/notes.md /verif/seeded/$id/notes.md 2>/dev/null
git checkout -q -- src 2>/dev/null
git status --short | grep -v '^??' | head -3
cp SEED/seed_demo.rs tests/seed_demo.rs
fflag=""; [ -n "$feat" ] && fflag="--features $feat"
echo "== demo WITHOUT change"; cargo test --offline $fflag --test seed_demo 2>&1 | grep -E "^test result|error(\[|:)" | head -3
git apply SEED/patch.diff || { echo "PATCH DOES NOT APPLY"; exit 1; }
echo "== build all features WITH change"; cargo build --offline --all-features 2>&1 | grep -E "^error|Finished" | head -3
echo "== demo WITH change"; cargo test --offline $fflag --test seed_demo 2>&1 | grep -E "^test result|error(\[|:)" | head -3
mv tests/seed_demo.rs /tmp/seed_demo_$id.rs
echo "== default-feature suite WITH change"; cargo test --workspace --no-fail-fast --offline 2>&1 | grep -E "^test result" | awk '{p+=$4; f+=$6} END {print "passed",p,"failed",f}'
echo "== all-feature suite WITH change"; cargo test --no-fail-fast --offline --all-features 2>&1 | grep -E "^test result" | awk '{p+=$4; f+=$6} END {print "passed",p,"failed",f}'
mv /tmp/seed_demo_$id.rs tests/seed_demo.rs
