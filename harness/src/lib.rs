//! qxv — property-based verification harness for quick-xml (see /verif/DESIGN.md)
#![allow(clippy::all)]

pub mod attrmodel;
pub mod cfgmodel;
pub mod doc;
pub mod dynde;
pub mod dynval;
pub mod engine;
pub mod evgen;
pub mod fuzz;
pub mod gen;
pub mod props;
pub mod rec;
pub mod refxml;
pub mod sources;
pub mod types;
pub mod xmlname;

#[cfg(feature = "full")]
pub const VARIANT: &str = "full";
#[cfg(all(not(feature = "full"), feature = "html"))]
pub const VARIANT: &str = "html";
#[cfg(all(not(feature = "full"), not(feature = "html")))]
pub const VARIANT: &str = "min";
