//! Byte-level entry points for the coverage-guided targets (harness/fuzz): the bytes are decoded
//! into the same `Case` values the generated checks use and pushed through the same oracles,
//! so a libFuzzer artifact replays through `qxv fuzz-artifact` into a normal replay file.

use crate::engine::{guarded, Verdict, B};
use crate::props::*;
use serde_json::{json, Value};

pub const FUZZ_PROPS: &[&str] = &["C01", "C02", "C03", "C04", "C07", "C08", "C10", "C11", "C14", "C15", "C16", "C18"];

/// Decode `data` for property `prop` and run its oracle. Returns (case as JSON, verdict).
pub fn run(prop: &str, data: &[u8]) -> Option<(Value, Verdict)> {
    let (h, rest) = if data.len() >= 4 { (&data[..4], &data[4..]) } else { return None };
    let text = || std::str::from_utf8(rest).ok().map(|s| s.to_string());
    let cuts16 = |len: usize| -> Vec<usize> {
        let m = u16::from_le_bytes([h[2], h[3]]) as u64;
        match h[1] >> 6 {
            0 => crate::sources::cuts_from_mask(m, len.min(17)),
            1 => crate::sources::cuts_fixed(1 + (h[2] % 7) as usize, len),
            2 => vec![(m as usize) % (len + 1), (m as usize / 7) % (len + 1)],
            _ => vec![],
        }
    };
    let out = match prop {
        "C01" => {
            let c = c01::Case { input: B(rest.to_vec()), cfg: h[0] & 127 };
            (json!(c), guarded(|| c01::check(&c)))
        }
        "C02" => {
            let c = c02::Case { input: B(rest.to_vec()), cfg: h[0] & 127, cuts: cuts16(rest.len()), pend: vec![h[1] & 3, (h[1] >> 2) & 3, (h[1] >> 4) & 3], clear: h[0] & 128 == 0 };
            (json!(c), guarded(|| c02::check(&c)))
        }
        "C03" => {
            let c = c03::Case { input: B(rest.to_vec()), cfg: h[0] & 127, source: h[1] % 3, piece: h[2] % 9, pend: h[3] % 3, ns: h[0] & 128 != 0, skip: h[3] & 0xFC, raw: if h[2] & 0x80 != 0 { h[1] } else { 0 } };
            (json!(c), guarded(|| c03::check(&c)))
        }
        "C04" => {
            let items: Vec<c04::Item> = rest
                .iter()
                .take(48)
                .map(|b| match b % 8 {
                    0 | 1 | 2 => c04::Item::Start((b >> 3) % 5),
                    3 | 4 | 5 => c04::Item::End((b >> 3) % 5, (b >> 6) % 4),
                    6 => c04::Item::Empty((b >> 3) % 5),
                    _ => c04::Item::Text,
                })
                .collect();
            let c = c04::Case { items, cfg: h[0] & 127, flips: vec![(h[1] % 48, h[1] >> 6, h[2] & 1 == 1), (h[2] % 48, h[3] & 3, h[3] & 4 != 0)], buffered: h[0] & 128 != 0, skips: if h[3] & 8 != 0 { vec![h[3] >> 4] } else { vec![] } };
            (json!(c), guarded(|| c04::check(&c)))
        }
        "C07" if h[1] & 2 != 0 => {
            // generated target type: [k][k choice bytes][document]
            let (choices, doc) = dyn_parts(rest)?;
            let script = crate::dynde::script_from_doc(&doc, &choices);
            let c = c07::DynCase { script, input: doc.clone(), cuts: if h[1] & 1 == 1 { Some(cuts16(doc.len())) } else { None } };
            (json!(c), guarded(|| c07::check_dyn(&c)))
        }
        "C14" if h[1] & 0x20 != 0 => {
            let (choices, doc) = dyn_parts(rest)?;
            let script = crate::dynde::script_from_doc(&doc, &choices);
            let c = c07::DynCase { script, cuts: Some(cuts16(doc.len())), input: doc };
            (json!(c), guarded(|| c14::check_dyn(&c)))
        }
        "C15" => {
            let (choices, doc) = dyn_parts(rest)?;
            const K: [u8; 8] = [0, 1, 3, 4, 5, 6, 7, 9];
            let mut rewrites = vec![c15::Rw { kind: K[(h[0] & 7) as usize], site: (h[1] as u16) * 257, arg: (h[2] as u16) * 251 + (h[0] >> 3) as u16 }];
            if h[3] & 0x80 != 0 {
                rewrites.push(c15::Rw { kind: K[(h[3] & 7) as usize], site: ((h[1] ^ h[3]) as u16) * 257, arg: (h[2] as u16) * 13 + (h[3] >> 3) as u16 });
            }
            let c = c15::DynDocCase { doc, choices, rewrites };
            (json!(c), guarded(|| c15::check_dyn_doc(&c)))
        }
        "C07" => {
            let t = text()?;
            let all: Vec<c07::Target> = crate::types::ALL_TYPES.iter().map(|t| c07::Target::Fam(*t)).chain(c07::ALL_EXTRA.iter().cloned()).collect();
            let c = c07::Case { target: all[h[0] as usize % all.len()].clone(), input: t, via_reader: h[1] & 1 == 1 };
            (json!(c), guarded(|| c07::check(&c)))
        }
        "C08" => {
            let c = c08::Case { input: B(rest.to_vec()), piece: if h[0] & 1 == 0 { None } else { Some(h[1] % 9) } };
            (json!(c), guarded(|| c08::check(&c)))
        }
        "C10" => {
            let c = c10::Case::Str(text()?);
            (json!(c), guarded(|| c10::check(&c)))
        }
        "C11" => {
            let mut content = vec![b't'];
            content.extend_from_slice(rest);
            std::str::from_utf8(&content).ok()?;
            let c = c11::Case { content: B(content), html: h[0] & 1 == 1, checks: h[0] & 2 == 2, via_reader: h[0] & 4 == 4, reassert: if h[0] & 8 != 0 { u16::from_le_bytes([h[1], h[2]]) } else { 0 } };
            (json!(c), guarded(|| c11::check(&c)))
        }
        "C14" => {
            let t = text()?;
            let c = c14::Case { ty: crate::types::ALL_TYPES[h[0] as usize % crate::types::ALL_TYPES.len()], cuts: cuts16(t.len()), input: t };
            (json!(c), guarded(|| c14::check(&c)))
        }
        "C16" => {
            let c = c16::Case { input: B(rest.to_vec()), cfg: h[0] & 127, source: h[1] % 3 };
            (json!(c), guarded(|| c16::check(&c)))
        }
        "C18" => {
            let cuts = c02::normalise_cuts(rest, &cuts16(rest.len()));
            let c = c18::Case { input: B(rest.to_vec()), cfg: h[0] & 127, cuts, asynch: h[0] & 128 != 0, pend: vec![h[1] & 1, (h[1] >> 1) & 1], faults: vec![((h[2] % 64) as usize, h[3] % 6, 1 + (h[3] >> 6))], skip: if h[1] & 4 != 0 { h[2] } else { 0 } };
            (json!(c), guarded(|| c18::check(&c)))
        }
        _ => return None,
    };
    Some(out)
}

/// `[k][k choice bytes][document text]`
fn dyn_parts(rest: &[u8]) -> Option<(Vec<u8>, String)> {
    let k = (*rest.first()? as usize) % 33;
    if rest.len() < 1 + k {
        return None;
    }
    let doc = std::str::from_utf8(&rest[1 + k..]).ok()?.to_string();
    Some((rest[1..1 + k].to_vec(), doc))
}

/// what the fuzz binary calls: panics (= libFuzzer crash) on a real failure
pub fn fuzz_one(prop: &str, data: &[u8], known: &[crate::engine::KnownFinding]) {
    if let Some((case, v)) = run(prop, data) {
        let mut fail = v.fail.clone();
        for k in &v.known {
            if !known.iter().any(|f| f.property == prop && f.signature == *k && f.status == "known") && fail.is_none() {
                fail = Some(format!("discrepancy with signature `{}` (not a listed known finding)", k));
            }
        }
        if let Some(m) = fail {
            eprintln!("QXV-FUZZ-FAILURE property={} message={} case={}", prop, m, case);
            std::process::abort();
        }
    }
}
