//! C12 — skipping an element consumes exactly that element and reports its inner span.

use super::PropInfo;
use crate::doc::*;
use crate::engine::{sample_strategy, scale, Ctx, Verdict, B};
use crate::rec::*;
use crate::sources::{block_on, ChunkedAsync, ChunkedBufRead};
use proptest::prelude::*;
use quick_xml::events::Event;
use quick_xml::name::QName;
use quick_xml::reader::Reader;
use serde::{Deserialize, Serialize};
use serde_json::Value;

#[derive(Clone, Debug, Serialize, Deserialize, PartialEq)]
pub struct Case {
    pub doc: Doc,
    /// which start event (index among the start events the reader will produce), scaled
    pub target: u16,
    /// configuration bits (only trim_text_start, trim_text_end, expand_empty_elements vary)
    pub cfg: u8,
    /// 0 read_to_end (slice), 1 read_text (slice), 2 read_to_end_into (chunked), 3 read_to_end_into_async
    pub variant: u8,
    pub piece: u8,
    /// failure path: truncate the document this many bytes after the chosen start tag (scaled)
    pub truncate: Option<u16>,
    /// history before the call under test, on the same reader: 0 = none; 1 = an earlier skip call
    /// that FAILS with a recoverable error (a small ill-formed element is put in front of the
    /// document), made while the trimming switches had the opposite values; 2 = an earlier skip
    /// call that succeeds, same switch change afterwards
    #[serde(default)]
    pub prelude: u8,
}

const PRE_FAIL: &[u8] = b"<zq><zr></zx></zr></zq>";
const PRE_OK: &[u8] = b"<zq k='1'> <zr>t</zr> </zq>";

pub fn info() -> PropInfo {
    PropInfo {
        id: "C12",
        run,
        replay,
        rule: "cases = (well-formed document with repeated names at several depths, <n/> and <n></n> forms, comments/CDATA/PIs/attribute values/text containing look-alike end tags, blanks before '>' of end tags; a start event of that document; trim_text_start/trim_text_end/expand_empty_elements, name trimming on/off (off: documents without blanks in end tags), name checking on/off; read_to_end / read_text on the slice, read_to_end_into on a chunked source, read_to_end_into_async; optionally the document truncated somewhere after the chosen start tag). Oracle from the generator's tree: the returned span is exactly (end of the start tag, offset of '<' of the matching end tag), empty for an expanded empty element; read_text returns input[span]; the next event equals the event following that end tag in a plain full read; config() after the call equals config() before it, also when the call fails. EVERY start event of sampled documents, plus proptest (document, start, truncation). Non-trivial = the skipped element contains a nested element of the same name or a look-alike end tag, or the call failed. In half of the cases the reader has a HISTORY before the call under test: a small element in front of the document is skipped first - with an ill-formed body, so that the call fails with a recoverable error, or well-formed - while the trimming switches have the opposite values; the switches are then set to the case's values and the call under test must behave as if nothing had happened before. Every call variant is also made on an NsReader (read_to_end, read_text, read_to_end_into, read_to_end_into_async of the namespace-aware reader).",
        assumptions: &["documents are well-formed; name checking stays on (default)", "a truncated document must make the call fail when the cut lies before the end of the matching end tag"],
        level: "exploration",
        variants: &["full"],
    }
}

fn strip_end_ws(e: &mut Elem) {
    e.end_ws = 0;
    for c in e.children.iter_mut() {
        if let Node::Elem(x) = c {
            strip_end_ws(x);
        }
    }
}

fn lookalike_inside(r: &Rendered, id: usize) -> bool {
    let info = &r.elems[id];
    let name = info.name.as_bytes();
    let mut needle = b"</".to_vec();
    needle.extend_from_slice(name);
    let (a, b) = (r.flat[info.open_idx].end, r.flat[info.close_idx].start);
    if a >= b {
        return false;
    }
    let inner = &r.text[a..b];
    // a nested element of the same name, or the text `</name` anywhere inside
    let nested = r.elems.iter().enumerate().any(|(j, e)| j != id && e.name == info.name && e.open_idx > info.open_idx && e.close_idx < info.close_idx);
    nested || inner.windows(needle.len()).any(|w| w == &needle[..])
}

pub fn check(c: &Case) -> Verdict {
    // with end-name trimming off an end tag with blanks before '>' does not carry the element's
    // name any more (documented): such documents are only used with trimming on
    let trim_names = c.cfg & TRIM_NAMES != 0;
    let mut doc = c.doc.clone();
    if !trim_names {
        strip_end_ws(&mut doc.root);
    }
    let rendered = render(&doc);
    let cfg = (c.cfg & (TRIM_START | TRIM_END | EXPAND_EMPTY | TRIM_NAMES | CHECK_END_NAMES)) | if c.cfg & 1 == 0 { CHECK_END_NAMES } else { 0 };
    let expand = cfg & EXPAND_EMPTY != 0;
    // candidate start events
    let cands: Vec<usize> = rendered.flat.iter().enumerate().filter(|(_, f)| matches!(f.kind, FlatKind::Start(_)) || (expand && matches!(f.kind, FlatKind::Empty(_)))).map(|(k, _)| k).collect();
    if cands.is_empty() {
        return Verdict::excluded("no-start-event");
    }
    let tflat = cands[scale(c.target, cands.len())];
    let (id, is_empty) = match rendered.flat[tflat].kind {
        FlatKind::Start(i) => (i, false),
        FlatKind::Empty(i) => (i, true),
        _ => unreachable!(),
    };
    let info = &rendered.elems[id];
    // an optional prelude element in front of the document shifts every position
    let pre: &[u8] = match c.prelude % 3 {
        1 => PRE_FAIL,
        2 => PRE_OK,
        _ => b"",
    };
    let off = pre.len() as u64;
    let start_end_d = rendered.flat[tflat].end as u64;
    let start_end = start_end_d + off;
    let (want_span, close_end) = if is_empty { (start_end..start_end, start_end) } else { (start_end..rendered.flat[info.close_idx].start as u64 + off, rendered.flat[info.close_idx].end as u64 + off) };
    // truncation (failure path)
    let full_len = rendered.text.len();
    let mut data: Vec<u8> = pre.to_vec();
    match c.truncate {
        Some(t) => {
            let room = full_len - start_end_d as usize;
            data.extend_from_slice(&rendered.text[..start_end_d as usize + scale(t, room + 1).min(room)]);
        }
        None => data.extend_from_slice(&rendered.text),
    };
    let truncated_before_close = (data.len() as u64) < close_end;
    let name = info.name.clone();
    let qn = QName(name.as_bytes());
    // what follows the end tag in a plain full read
    let full = read_slice(&data, cfg);
    let next_want: Option<Rec> = if truncated_before_close {
        None
    } else {
        let j = full.iter().rposition(|r| r.pos == close_end && matches!(r.ev, Ev::End(_)));
        match j {
            Some(j) => full.get(j + 1).cloned(),
            None => return Verdict::fail(format!("full read has no End event ending at {} | doc {:?} | {}", close_end, B::show(&data), show_recs(&full))),
        }
    };

    let cuts = crate::sources::cuts_fixed(c.piece as usize, data.len());
    // outcome of the call: (result span or error text, text for read_text, next record, config before/after)
    struct Out {
        span: Result<std::ops::Range<u64>, String>,
        text: Option<String>,
        next: Rec,
        cfg_before: u8,
        cfg_after: u8,
    }
    macro_rules! seek_and_skip {
        ($r:ident, $read:expr, $skip:expr, $pre_skip:expr) => {{
            if off > 0 {
                // earlier history on this reader: opposite trimming switches, a skip call on the
                // prelude element (it fails with a recoverable error or succeeds), then whatever is
                // left of the prelude is read event by event
                apply_cfg($r.config_mut(), cfg ^ (TRIM_START | TRIM_END));
                let first = $read;
                let is_start = matches!(first, Ok(Event::Start(_)));
                drop(first);
                if is_start {
                    let _ = $pre_skip;
                }
                for _ in 0..16 {
                    if $r.buffer_position() >= off {
                        break;
                    }
                    let e = $read;
                    let stop = matches!(e, Ok(Event::Eof));
                    drop(e);
                    if stop {
                        break;
                    }
                }
                if $r.buffer_position() != off {
                    return Verdict::excluded("prelude-not-consumed-exactly");
                }
            }
            apply_cfg($r.config_mut(), cfg);
            let mut found = false;
            for _ in 0..call_bound(data.len()) {
                let ev = $read;
                match ev {
                    Ok(Event::Start(_)) if $r.buffer_position() == start_end => {
                        found = true;
                        break;
                    }
                    Ok(Event::Eof) => break,
                    Ok(_) => {}
                    Err(e) => return Verdict::fail(format!("error {:?} before reaching the chosen start tag | doc {:?}", e, B::show(&data))),
                }
            }
            if !found {
                return Verdict::fail(format!("the start event ending at {} was never returned | doc {:?}", start_end, B::show(&data)));
            }
            let cfg_before = cfg_bits($r.config());
            let (span, text): (Result<std::ops::Range<u64>, String>, Option<String>) = $skip;
            let cfg_after = cfg_bits($r.config());
            let next = {
                let e = $read;
                let ev = ev_of(&e);
                drop(e);
                Rec { ev, pos: $r.buffer_position(), err_pos: 0 }
            };
            Out { span, text, next, cfg_before, cfg_after }
        }};
    }
    // variants 4..7: the same four calls on an NsReader (its wrappers also maintain the namespace scopes)
    let out: Out = match c.variant % 8 {
        0 => {
            let mut r = Reader::from_reader(&data[..]);
            // (for every other document the call is made on a clone of the reader taken at that moment: a
            // copy of a reader is a reader in the same state)
            seek_and_skip!(
                r,
                r.read_event(),
                {
                    if data.len() % 2 == 0 {
                        let copy = r.clone();
                        r = copy;
                    }
                    (r.read_to_end(qn).map_err(|e| format!("{:?}", e)), None)
                },
                r.read_to_end(QName(b"zq")).map(|_| ())
            )
        }
        1 => {
            let mut r = Reader::from_reader(&data[..]);
            seek_and_skip!(r, r.read_event(), {
                if data.len() % 2 == 1 {
                    let copy = r.clone();
                    r = copy;
                }
                let before = r.buffer_position();
                match r.read_text(qn) {
                    Ok(t) => (Ok(before..before + t.len() as u64), Some(t.into_owned())),
                    Err(e) => (Err(format!("{:?}", e)), None),
                }
            }, r.read_text(QName(b"zq")).map(|_| ()))
        }
        2 => {
            let mut r = Reader::from_reader(ChunkedBufRead::new(&data, cuts));
            let mut buf = Vec::new();
            let mut buf2 = Vec::new();
            seek_and_skip!(
                r,
                {
                    buf.clear();
                    r.read_event_into(&mut buf)
                },
                (r.read_to_end_into(qn, &mut buf2).map_err(|e| format!("{:?}", e)), None),
                r.read_to_end_into(QName(b"zq"), &mut buf2).map(|_| ())
            )
        }
        3 => {
            let mut r = Reader::from_reader(ChunkedAsync::new(&data, cuts, vec![0, 1, 2]));
            let mut buf = Vec::new();
            let mut buf2 = Vec::new();
            seek_and_skip!(
                r,
                {
                    buf.clear();
                    block_on(r.read_event_into_async(&mut buf))
                },
                (block_on(r.read_to_end_into_async(qn, &mut buf2)).map_err(|e| format!("{:?}", e)), None),
                block_on(r.read_to_end_into_async(QName(b"zq"), &mut buf2)).map(|_| ())
            )
        }
        4 => {
            let mut r = quick_xml::reader::NsReader::from_reader(&data[..]);
            seek_and_skip!(r, r.read_event(), (r.read_to_end(qn).map_err(|e| format!("{:?}", e)), None), r.read_to_end(QName(b"zq")).map(|_| ()))
        }
        5 => {
            let mut r = quick_xml::reader::NsReader::from_reader(&data[..]);
            seek_and_skip!(r, r.read_event(), {
                let before = r.buffer_position();
                match r.read_text(qn) {
                    Ok(t) => (Ok(before..before + t.len() as u64), Some(t.into_owned())),
                    Err(e) => (Err(format!("{:?}", e)), None),
                }
            }, r.read_text(QName(b"zq")).map(|_| ()))
        }
        6 => {
            let mut r = quick_xml::reader::NsReader::from_reader(ChunkedBufRead::new(&data, cuts));
            let mut buf = Vec::new();
            let mut buf2 = Vec::new();
            seek_and_skip!(
                r,
                {
                    buf.clear();
                    r.read_event_into(&mut buf)
                },
                (r.read_to_end_into(qn, &mut buf2).map_err(|e| format!("{:?}", e)), None),
                r.read_to_end_into(QName(b"zq"), &mut buf2).map(|_| ())
            )
        }
        _ => { // 7
            let mut r = quick_xml::reader::NsReader::from_reader(ChunkedAsync::new(&data, cuts, vec![0, 1, 2]));
            let mut buf = Vec::new();
            let mut buf2 = Vec::new();
            seek_and_skip!(
                r,
                {
                    buf.clear();
                    block_on(r.read_event_into_async(&mut buf))
                },
                (block_on(r.read_to_end_into_async(qn, &mut buf2)).map_err(|e| format!("{:?}", e)), None),
                block_on(r.read_to_end_into_async(QName(b"zq"), &mut buf2)).map(|_| ())
            )
        }
    };
    let ctx = || format!("skip <{}> (start tag ends at {}) variant {} cfg={} | doc {:?}", name, start_end, c.variant % 8, cfg_show(cfg), B::show(&data));
    if out.cfg_after != out.cfg_before {
        return Verdict::fail(format!("configuration changed by the call: before {}, after {} (result {:?}) | {}", cfg_show(out.cfg_before), cfg_show(out.cfg_after), out.span, ctx()));
    }
    let mut v = Verdict::pass(false);
    match (&out.span, truncated_before_close) {
        (Err(_), true) => {
            v.nontrivial = true;
            v.classes.push("failure-path-config-restored");
        }
        (Ok(s), true) => return Verdict::fail(format!("the document ends before the matching end tag is complete, but the call returned Ok({:?}) | {}", s, ctx())),
        (Err(e), false) => return Verdict::fail(format!("the call failed with {} on a complete element | {}", e, ctx())),
        (Ok(s), false) => {
            if *s != want_span {
                return Verdict::fail(format!("returned span {:?}, expected {:?} | {}", s, want_span, ctx()));
            }
            if let Some(t) = &out.text {
                let want = String::from_utf8_lossy(&data[want_span.start as usize..want_span.end as usize]).into_owned();
                if *t != want {
                    return Verdict::fail(format!("read_text returned {:?}, the input there is {:?} | {}", t, want, ctx()));
                }
            }
            match &next_want {
                Some(w) if w.ev == out.next.ev && w.pos == out.next.pos => {}
                other => return Verdict::fail(format!("next event after the skip is {:?}@{}, a full read has {:?} after the end tag | {}", out.next.ev, out.next.pos, other, ctx())),
            }
            if !is_empty && lookalike_inside(&rendered, id) {
                v.nontrivial = true;
                v.classes.push("lookalike-or-same-name-nested");
            }
            if is_empty {
                v.classes.push("expanded-empty");
            }
        }
    }
    v.classes.push(["read_to_end", "read_text", "read_to_end_into", "read_to_end_into_async"][(c.variant % 4) as usize]);
    if c.variant % 8 >= 4 {
        v.classes.push("through-NsReader");
    }
    match c.prelude % 3 {
        1 => v.classes.push("after-an-earlier-failed-skip-and-a-switch-change"),
        2 => v.classes.push("after-an-earlier-successful-skip-and-a-switch-change"),
        _ => {}
    }
    v
}

fn run(ctx: &Ctx) {
    ctx.run_regress::<Case, _>(check);
    let p = DocParams::skipping();
    let ndocs = ctx.tier.pick(12_000usize, 100_000);
    let docs: Vec<Doc> = sample_strategy(&doc_strategy(&p), ctx.seed ^ 0x12, ndocs);
    ctx.run_groups(
        "every-start-event-of-sampled-documents",
        docs.len() as u64,
        false,
        |i| {
            let d = &docs[i as usize];
            let r = render(d);
            let n = r.flat.iter().filter(|f| matches!(f.kind, FlatKind::Start(_) | FlatKind::Empty(_))).count().max(1);
            let mut out = vec![];
            for k in 0..n {
                for variant in 0..8u8 {
                    let cfgsel = (i as usize + k + variant as usize) % 8;
                    let cfg = [0, TRIM_START, TRIM_END, TRIM_START | TRIM_END, EXPAND_EMPTY, EXPAND_EMPTY | TRIM_START, EXPAND_EMPTY | TRIM_END, EXPAND_EMPTY | TRIM_START | TRIM_END][cfgsel] | if (i as usize + k) % 3 == 0 { 0 } else { TRIM_NAMES } | if (k + variant as usize) % 5 == 0 { 1 } else { 0 };
                    out.push(Case { doc: d.clone(), target: ((k * 65536 + 32768) / n) as u16, cfg, variant, piece: [0, 1, 2, 5][(k + i as usize) % 4], truncate: None, prelude: [0u8, 0, 1, 2][(k + 2 * variant as usize + i as usize) % 4] });
                }
            }
            out
        },
        check,
    );
    // failure path: every truncation point after the chosen start tag, for a sample of documents
    let nt = ctx.tier.pick(1000usize, 10_000);
    ctx.run_groups(
        "truncated-at-every-byte",
        nt.min(docs.len()) as u64,
        false,
        |i| {
            let d = &docs[i as usize];
            let r = render(d);
            let len = r.text.len();
            let mut out = vec![];
            for t in 0..=len.min(200) {
                out.push(Case { doc: d.clone(), target: (i as u16).wrapping_mul(7919), cfg: [TRIM_START | TRIM_NAMES, 0, TRIM_START | TRIM_END | TRIM_NAMES][t % 3], variant: (t % 8) as u8, piece: 1, truncate: Some(((t * 65536) / (len.min(200) + 1)) as u16), prelude: [0u8, 1, 0, 2][(t / 3) % 4] });
            }
            out
        },
        check,
    );
    let strat = move || Box::new((doc_strategy(&p), any::<u16>(), 0u8..128, 0u8..8, 0u8..6, prop::option::weighted(0.3, any::<u16>()), 0u8..3).prop_map(|(doc, target, cfg, variant, piece, truncate, prelude)| Case { doc, target, cfg, variant, piece, truncate, prelude }));
    ctx.run_proptest_with("documents-x-random-start", ctx.tier.pick(600_000, 5_000_000), strat, check);
}

fn replay(_stage: &str, case: &Value) -> Result<Verdict, String> {
    let c: Case = serde_json::from_value(case.clone()).map_err(|e| e.to_string())?;
    Ok(check(&c))
}
