//! C08 — positions account for every byte; reading then writing reproduces the input.

use super::PropInfo;
use crate::engine::{Ctx, SplitMix64, Verdict, B};
use crate::gen;
use crate::rec::*;
use crate::refxml::{self, ws};
use crate::sources::ChunkedBufRead;
use proptest::prelude::*;
use quick_xml::errors::{Error, IllFormedError};
use quick_xml::events::Event;
use quick_xml::reader::Reader;
use quick_xml::writer::Writer;
use serde::{Deserialize, Serialize};
use serde_json::Value;

#[derive(Clone, Debug, Serialize, Deserialize, PartialEq)]
pub struct Case {
    pub input: B,
    /// None = borrowing reader; Some(piece size) = buffered reader over pieces of that size
    /// (0 = whole input), first piece at least 4 bytes
    pub piece: Option<u8>,
}

pub fn info() -> PropInfo {
    PropInfo {
        id: "C08",
        run,
        replay,
        rule: "cases = (input, source). Neutral configuration (no trimming, no expansion, no name checks/trimming, unmatched ends allowed). For every read call the bytes between the position before and after must be exactly opening delimiter + content exposed by the event + closing delimiter; spans must tile; the final position must be the input length; the Writer's bytes for each event must equal that span (DOCTYPE keyword normalised). Enumerated strings/token sequences, corpus, proptest soups, mutated corpus. Non-trivial = at least two events of which at least one is markup. Two further enumerations vary SIZE and OFFSET: fourteen construct kinds (text, long name, quoted value with '>', many attributes, blanks inside tags, comment / CDATA / PI bodies with near-terminators, DOCTYPE with nested brackets, blank runs around text, reference runs, declaration, deep nesting) with an inner length 0..=70 placed after a prefix of 0..=130 bytes, and large inputs whose variable part is 255..70 001 bytes long (block-wise scanners, buffer growth, positions beyond 255 / 65 535, default BufReader capacity). Every event is also written through a synchronous sink that accepts 1..=7 bytes per (plain or vectored) write and interrupts some calls: same bytes as into a Vec.",
        assumptions: &[
            "a leading UTF-8 BOM may be counted or not, as long as one convention is used consistently within the run",
            "after a fatal syntax error only the prefix is compared",
            "inputs starting with a UTF-16 BOM/signature are outside the domain",
        ],
        level: "exploration",
        variants: &["full", "min"],
    }
}

fn expected_span(ev: &Event) -> Option<Vec<u8>> {
    let (open, content, close): (&[u8], &[u8], &[u8]) = match ev {
        Event::Text(t) => (b"", &**t, b""),
        Event::Start(s) => (b"<", &**s, b">"),
        Event::Empty(s) => (b"<", &**s, b"/>"),
        Event::End(e) => (b"</", &**e, b">"),
        Event::Comment(c) => (b"<!--", &**c, b"-->"),
        Event::CData(c) => (b"<![CDATA[", &**c, b"]]>"),
        Event::Decl(d) => (b"<?", &**d, b"?>"),
        Event::PI(p) => (b"<?", &**p, b"?>"),
        Event::DocType(_) | Event::Eof => return None,
    };
    let mut v = open.to_vec();
    v.extend_from_slice(content);
    v.extend_from_slice(close);
    Some(v)
}

/// `<!` DOCTYPE(any case) ws* content `>`
fn doctype_span_ok(span: &[u8], content: &[u8]) -> bool {
    if span.len() < 10 || &span[..2] != b"<!" || !span[2..9].eq_ignore_ascii_case(b"DOCTYPE") || span.last() != Some(&b'>') {
        return false;
    }
    let body = &span[9..span.len() - 1];
    let mut k = 0;
    while k < body.len() && ws(body[k]) {
        k += 1;
    }
    &body[k..] == content
}

struct Tiler<'a> {
    data: &'a [u8],
    /// offset of reported positions relative to the raw input (0 or 3); fixed at the first event
    off: Option<usize>,
    prev: u64,
    events: u32,
    markup: u32,
    out: Vec<u8>,
    plain: bool,
    raw_bom_skipped: bool,
}

impl<'a> Tiler<'a> {
    fn step(&mut self, before: u64, res: &Result<Event, Error>, after: u64, k: usize) -> Result<bool, String> {
        let data = self.data;
        if before != self.prev {
            return Err(format!("call {}: position before the call is {}, after the previous call it was {}", k, before, self.prev));
        }
        if after < before {
            return Err(format!("call {}: position went back from {} to {}", k, before, after));
        }
        self.prev = after;
        let offs: Vec<usize> = match self.off {
            Some(o) => vec![o],
            None => {
                if data.starts_with(&refxml::UTF8_BOM) {
                    vec![3, 0]
                } else {
                    vec![0]
                }
            }
        };
        let span_of = |o: usize| -> Option<&[u8]> {
            let (b, a) = (before as usize + o, after as usize + o);
            // convention "raw positions": the first span also covers the BOM
            if a > data.len() {
                None
            } else {
                Some(&data[b..a])
            }
        };
        match res {
            Ok(Event::Eof) => {
                for o in offs {
                    if after as usize + o == data.len() && after == before {
                        return Ok(true);
                    }
                    // raw convention with nothing but a BOM in the input
                    if self.off.is_none() && after as usize == data.len() {
                        return Ok(true);
                    }
                }
                Err(format!("call {}: Eof at position {} (before {}), input length {}", k, after, before, data.len()))
            }
            Ok(ev) => {
                self.events += 1;
                if !matches!(ev, Event::Text(_)) {
                    self.markup += 1;
                }
                let mut w = Writer::new(Vec::new());
                w.write_event(ev.borrow()).map_err(|e| format!("writer failed: {}", e))?;
                let written = w.into_inner();
                // the same event through a sink that accepts 1..=7 bytes per (plain or vectored) write
                let mut pw = Writer::new(crate::sources::PartialSyncSink::new(1 + k % 7, 0x0040_0801_0020_0104));
                pw.write_event(ev.borrow()).map_err(|e| format!("writer failed on a sink with partial writes: {}", e))?;
                let pwritten = pw.into_inner().out;
                if pwritten != written {
                    return Err(format!("call {}: event {:?}: writer produced {:?} into a Vec but {:?} through a sink accepting {} bytes per write", k, ev, B::show(&written), B::show(&pwritten), 1 + k % 7));
                }
                // (offset convention, BOM inside the first span?) alternatives
                let mut alts: Vec<(usize, bool)> = vec![];
                for o in offs {
                    if self.off.is_none() && o == 0 && data.starts_with(&refxml::UTF8_BOM) && before == 0 {
                        // raw convention: either the BOM is inside the first span, or it was not
                        // stripped at all (it is then part of the first text event)
                        alts.push((o, true));
                        if matches!(ev, Event::Text(t) if t.starts_with(&refxml::UTF8_BOM)) {
                            alts.push((o, false));
                        }
                    } else {
                        alts.push((o, false));
                    }
                }
                for (o, skip_bom) in alts {
                    let mut span = match span_of(o) {
                        Some(s) => s,
                        None => continue,
                    };
                    let mut skipped = false;
                    if skip_bom {
                        if span.len() < 3 {
                            continue;
                        }
                        span = &span[3..];
                        skipped = true;
                    }
                    let ok = match ev {
                        Event::DocType(c) => {
                            self.plain = false;
                            let mut norm = b"<!DOCTYPE ".to_vec();
                            norm.extend_from_slice(c);
                            norm.push(b'>');
                            doctype_span_ok(span, c) && written == norm
                        }
                        _ => {
                            let exp = expected_span(ev).unwrap();
                            span == &exp[..] && written == span
                        }
                    };
                    if ok {
                        self.off = Some(o);
                        self.raw_bom_skipped |= skipped;
                        self.out.extend_from_slice(&written);
                        return Ok(false);
                    }
                }
                Err(format!(
                    "call {}: event {:?} between positions {}..{}: input bytes there are {:?}, writer produced {:?}",
                    k,
                    ev,
                    before,
                    after,
                    B::show(span_of(self.off.unwrap_or(0)).unwrap_or(b"<out of range>")),
                    B::show(&written)
                ))
            }
            Err(Error::IllFormed(IllFormedError::MissingDoctypeName)) => {
                self.plain = false;
                for o in offs {
                    if let Some(mut span) = span_of(o) {
                        let mut skipped = false;
                        // raw convention: the BOM is inside the first span (same rule as for events)
                        if self.off.is_none() && o == 0 && data.starts_with(&refxml::UTF8_BOM) && before == 0 && span.len() >= 3 {
                            span = &span[3..];
                            skipped = true;
                        }
                        if doctype_span_ok(span, b"") {
                            self.off = Some(o);
                            self.raw_bom_skipped |= skipped;
                            return Ok(false);
                        }
                    }
                }
                Err(format!("call {}: MissingDoctypeName between {}..{} does not cover an empty DOCTYPE", k, before, after))
            }
            Err(Error::Syntax(_)) => Ok(true),
            Err(e) => Err(format!("call {}: unexpected error under the neutral configuration: {:?}", k, e)),
        }
    }
}

pub fn check(c: &Case) -> Verdict {
    let data = &c.input.0;
    if cfg!(feature = "full") && refxml::is_utf16_like(data) {
        return Verdict::excluded("utf16-signature");
    }
    let mut t = Tiler { data, off: None, prev: 0, events: 0, markup: 0, out: vec![], plain: true, raw_bom_skipped: false };
    let mut fatal = false;
    let res: Result<(), String> = (|| {
        match c.piece {
            None => {
                let mut r = Reader::from_reader(&data[..]);
                apply_cfg(r.config_mut(), NEUTRAL);
                for k in 0..call_bound(data.len()) {
                    let before = r.buffer_position();
                    let e = r.read_event();
                    let after = r.buffer_position();
                    fatal |= matches!(e, Err(Error::Syntax(_)));
                    if t.step(before, &e, after, k)? {
                        return Ok(());
                    }
                }
                Err("no Eof within the call bound".into())
            }
            Some(p) => {
                // odd piece sizes >= 3: the caller buffer starts non-empty and is never cleared
                let keep = p >= 3 && p % 2 == 1;
                let cuts = crate::props::c02::normalise_cuts(data, &crate::sources::cuts_fixed(p as usize, data.len()));
                let mut r = Reader::from_reader(ChunkedBufRead::new(data, cuts));
                apply_cfg(r.config_mut(), NEUTRAL);
                let mut buf = if keep { PREFILL.to_vec() } else { Vec::new() };
                for k in 0..call_bound(data.len()) {
                    if !keep {
                        buf.clear();
                    }
                    let before = r.buffer_position();
                    let e = r.read_event_into(&mut buf);
                    let after = r.buffer_position();
                    fatal |= matches!(e, Err(Error::Syntax(_)));
                    if t.step(before, &e, after, k)? {
                        return Ok(());
                    }
                }
                Err("no Eof within the call bound".into())
            }
        }
    })();
    if let Err(m) = res {
        return Verdict::fail(m);
    }
    // the consequence stated by the property: writing everything read reproduces the input
    if t.plain && !fatal {
        let off = t.off.unwrap_or(if data.starts_with(&refxml::UTF8_BOM) { 3 } else { 0 });
        let body = if t.raw_bom_skipped { &data[3..] } else { &data[off.min(data.len())..] };
        if t.out != body {
            return Verdict::fail(format!("written events {:?} differ from the input {:?}", B::show(&t.out), B::show(body)));
        }
    }
    let mut v = Verdict::pass(t.events >= 2 && t.markup >= 1);
    if fatal {
        v.classes.push("prefix-before-syntax-error");
    }
    if !t.plain {
        v.classes.push("has-doctype");
    }
    if data.starts_with(&refxml::UTF8_BOM) {
        v.classes.push("bom");
    }
    if c.piece.is_some() {
        v.classes.push("buffered");
    }
    v
}

fn run(ctx: &Ctx) {
    ctx.run_regress::<Case, _>(check);
    let seed = ctx.seed;
    let n = ctx.tier.pick(7, 8);
    let count = gen::exh_count(13, n);
    ctx.run_indexed("exh-bytes-slice", count, |i| Some(Case { input: B(gen::exh_bytes(gen::SIGMA1, i)), piece: None }), check);
    let n2 = ctx.tier.pick(6, 7);
    let count2 = gen::exh_count(gen::SIGMA2.len() as u64, n2);
    ctx.run_indexed("exh-bytes-alphabet2-slice", count2, |i| Some(Case { input: B(gen::exh_bytes(gen::SIGMA2, i)), piece: None }), check);
    let nb = ctx.tier.pick(5, 6);
    let countb = gen::exh_count(13, nb);
    ctx.run_indexed("exh-bytes-buffered", countb * 2, |i| Some(Case { input: B(gen::exh_bytes(gen::SIGMA1, i / 2)), piece: Some((i % 2) as u8) }), check);
    let k = ctx.tier.pick(4, 5);
    let tcount = gen::exh_count(gen::TOKENS.len() as u64, k);
    ctx.run_indexed(
        "exh-tokens",
        tcount,
        |i| {
            let piece = match i % 4 {
                0 | 1 => None,
                2 => Some(0),
                _ => Some(1 + (i / 4 % 3) as u8),
            };
            Some(Case { input: B(gen::exh_tokens(gen::TOKENS, i)), piece })
        },
        check,
    );
    let corpus = gen::corpus();
    ctx.run_indexed("corpus", corpus.len() as u64 * 4, |i| Some(Case { input: B(corpus[(i / 4) as usize].1.clone()), piece: [None, Some(0), Some(1), Some(7)][(i % 4) as usize] }), check);
    let strat = (gen::soup_strategy(16), prop::option::of(0u8..9)).prop_map(|(input, piece)| Case { input: B(input), piece });
    ctx.run_proptest("soup", ctx.tier.pick(1_000_000, 8_000_000), strat, check);
    let small_corpus: Vec<&Vec<u8>> = corpus.iter().map(|c| &c.1).filter(|d| d.len() <= 4096).collect();
    ctx.run_indexed_mode(
        "mutated-corpus",
        ctx.tier.pick(800_000u64, 6_000_000),
        false,
        |i| {
            let mut r = SplitMix64::derive(seed, "c08-mutate", i);
            let base = if r.chance(1, 2) && !small_corpus.is_empty() { (*r.pick(&small_corpus)).clone() } else { gen::soup_seeded(&mut r, 10) };
            let edits = 1 + r.below(4);
            let input = gen::mutate(&mut r, &base, gen::SIGMA1, edits);
            let piece = if r.chance(1, 2) { None } else { Some(r.below(9) as u8) };
            Some(Case { input: B(input), piece })
        },
        check,
    );
    // offset and length sweep, large inputs (see gen.rs): borrowing reader and buffered reader with
    // pieces of 0 (whole), 1, 7, 16, 33 and 64 bytes
    let (pmax, qmax, vars) = ctx.tier.pick((130u64, 70u64, 2u64), (260, 140, 4));
    let pieces: [Option<u8>; 8] = [None, None, Some(0), Some(1), Some(7), Some(16), Some(33), Some(64)];
    ctx.run_indexed("offset-and-length-sweep", gen::sweep_count(pmax, qmax, vars), |i| Some(Case { input: B(gen::sweep_nth(i, pmax, qmax, vars)), piece: pieces[((i / 3) % 8) as usize] }), check);
    ctx.run_indexed("large-inputs", gen::big_count() * 3, |i| Some(Case { input: B(gen::big_nth(i / 3)), piece: [None, Some(0), Some(64)][(i % 3) as usize] }), check);
}

fn replay(_stage: &str, case: &Value) -> Result<Verdict, String> {
    let c: Case = serde_json::from_value(case.clone()).map_err(|e| e.to_string())?;
    Ok(check(&c))
}
