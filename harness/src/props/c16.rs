//! C16 — reader options change the event stream only in their documented way.
//!
//! Metamorphic oracle on the real reader: the stream read with the neutral combination,
//! pushed through the documented transformation (`cfgmodel`), must equal the stream read with
//! combination c — including the position reported after each corresponding construct.

use super::PropInfo;
use crate::cfgmodel::{self, F6};
use crate::engine::{Ctx, SplitMix64, Verdict, B};
use crate::gen;
use crate::rec::*;
use crate::refxml::{self, Lexed, Tok};
use proptest::prelude::*;
use serde::{Deserialize, Serialize};
use serde_json::Value;

#[derive(Clone, Debug, Serialize, Deserialize, PartialEq)]
pub struct Case {
    pub input: B,
    pub cfg: u8,
    /// 0 = borrowing reader, 1 = buffered reader (whole input), 2 = buffered reader, first piece 4 bytes then 1-byte pieces
    pub source: u8,
}

pub fn info() -> PropInfo {
    PropInfo {
        id: "C16",
        run,
        replay,
        rule: "cases = (input, switch combination c, source kind). The input is read once with the neutral combination (only allow_unmatched_ends) and once with c; the neutral records are turned into tokens and the documented transformation must produce exactly the second stream, positions included. Enumerated: all strings up to length N over the 13 markup bytes x all 128 combinations, token sequences, corpus x 128; generated: proptest soups. Non-trivial = the transformation changed, dropped or added at least one record (the two streams differ). Further stages change the trimming / comment-checking / end-name-trimming switches after k read calls: from there on the reader must behave exactly like a fresh reader with the new values on the rest of the input (positions shifted) - the switches are read at every call and nothing of an earlier setting may linger. Two further enumerations vary SIZE and OFFSET: fourteen construct kinds (text, long name, quoted value with '>', many attributes, blanks inside tags, comment / CDATA / PI bodies with near-terminators, DOCTYPE with nested brackets, blank runs around text, reference runs, declaration, deep nesting) with an inner length 0..=70 placed after a prefix of 0..=130 bytes, and large inputs whose variable part is 255..70 001 bytes long (block-wise scanners, buffer growth, positions beyond 255 / 65 535, default BufReader capacity).",
        assumptions: &[
            "the neutral stream itself is checked by C01/C08; here it is taken as given",
            "an end tag reported as mismatched may or may not pop the open-element stack (both accepted)",
            "check_comments also rejects a comment body ending in '-' (`--->`), as the IllFormedError documentation says",
            "error name strings are compared only for names the decoder can decode",
        ],
        level: "exploration",
        variants: &["full", "min"],
    }
}

fn static_kind(k: &str) -> &'static str {
    match k {
        "InvalidBangMarkup" => "InvalidBangMarkup",
        "UnclosedPIOrXmlDecl" => "UnclosedPIOrXmlDecl",
        "UnclosedComment" => "UnclosedComment",
        "UnclosedDoctype" => "UnclosedDoctype",
        "UnclosedCData" => "UnclosedCData",
        _ => "UnclosedTag",
    }
}

/// Turn the records of a neutral read into tokens with spans (raw offsets, BOM included).
pub fn tokens_of_neutral(data: &[u8], recs: &[Rec]) -> Result<Vec<Lexed>, String> {
    let bom = refxml::bom_len(data);
    let mut out = vec![];
    let mut prev = bom;
    for r in recs {
        let end = r.pos as usize + bom;
        let tok = match &r.ev {
            Ev::Eof => break,
            Ev::Text(t) => Tok::Text(t.0.clone()),
            Ev::Start(c, n) => Tok::Start(c.0.clone(), *n),
            Ev::Empty(c, n) => Tok::Empty(c.0.clone(), *n),
            Ev::End(c) => Tok::End(c.0.clone()),
            Ev::Comment(c) => Tok::Comment(c.0.clone()),
            Ev::CData(c) => Tok::CData(c.0.clone()),
            Ev::Decl(c) => Tok::Decl(c.0.clone()),
            Ev::PI(c, n) => Tok::PI(c.0.clone(), *n),
            Ev::DocType(c) => Tok::DocType(c.0.clone()),
            Ev::MissingDoctypeName => Tok::ErrMissingDoctypeName,
            Ev::Syntax(k) => {
                out.push(Lexed { tok: Tok::ErrSyntax(static_kind(k)), start: r.err_pos as usize + bom, end: data.len() });
                break;
            }
            other => return Err(format!("neutral read returned {:?}", other)),
        };
        if end < prev || end > data.len() {
            return Err(format!("neutral read: position {} after {:?} (previous {})", end, r.ev, prev));
        }
        out.push(Lexed { tok, start: prev, end });
        prev = end;
    }
    Ok(out)
}

fn read_with(data: &[u8], cfg: u8, source: u8) -> Vec<Rec> {
    match source {
        0 => read_slice(data, cfg),
        1 => read_buffered(data, cfg, &[], true),
        // first piece >= 4 bytes: the BOM / encoding sniff may look only at the first piece
        _ => read_buffered(data, cfg, &crate::sources::cuts_fixed(1, data.len()).into_iter().filter(|&c| c >= 4).collect::<Vec<_>>(), true),
    }
}

pub fn check(c: &Case) -> Verdict {
    let data = &c.input.0;
    if refxml::is_utf16_like(data) {
        return Verdict::excluded("utf16-signature");
    }
    let neutral = read_with(data, NEUTRAL, c.source);
    let toks = match tokens_of_neutral(data, &neutral) {
        Ok(t) => t,
        Err(m) => return Verdict::fail(m),
    };
    let recs = read_with(data, c.cfg, c.source);
    let mut w = cfgmodel::Walker::new(data, &toks);
    // a fatal error's own position after the call is not specified; everything else is
    let mut v = Verdict::pass(false);
    for (k, r) in recs.iter().enumerate() {
        match w.step(c.cfg, r) {
            cfgmodel::Step::Ok => {}
            cfgmodel::Step::KnownF6 => {
                if !v.known.contains(&F6) {
                    v.known.push(F6);
                }
            }
            cfgmodel::Step::Bad(m) => {
                v.fail = Some(format!("call {}: {} | cfg={} | neutral: {} | configured: {}", k, m, cfg_show(c.cfg), show_recs(&neutral), show_recs(&recs)));
                v.nontrivial = true;
                return v;
            }
        }
    }
    if !w.finished {
        v.fail = Some(format!("configured read stopped early | cfg={} | neutral: {} | configured: {}", cfg_show(c.cfg), show_recs(&neutral), show_recs(&recs)));
        return v;
    }
    v.nontrivial = w.changed > 0 || w.f6_hits > 0;
    if v.nontrivial {
        let b = c.cfg;
        let has = |t: fn(&Tok) -> bool| toks.iter().any(|l| t(&l.tok));
        if b & EXPAND_EMPTY != 0 && has(|t| matches!(t, Tok::Empty(..))) {
            v.classes.push("expanded-empty");
        }
        if b & (TRIM_START | TRIM_END) != 0 && has(|t| matches!(t, Tok::Text(x) if x.first().map_or(false, |c| refxml::ws(*c)) || x.last().map_or(false, |c| refxml::ws(*c)))) {
            v.classes.push("trimmed-text");
        }
        if b & TRIM_NAMES != 0 && has(|t| matches!(t, Tok::End(x) if x.last().map_or(false, |c| refxml::ws(*c)))) {
            v.classes.push("trimmed-end-name");
        }
        if recs.iter().any(|r| r.ev == Ev::DoubleHyphen) {
            v.classes.push("double-hyphen-error");
        }
        if recs.iter().any(|r| matches!(r.ev, Ev::Mismatch(..))) {
            v.classes.push("mismatch-error");
        }
        if recs.iter().any(|r| matches!(r.ev, Ev::Unmatched(..))) {
            v.classes.push("unmatched-error");
        }
        if w.f6_hits > 0 {
            v.classes.push("f6-empty-text");
        }
    }
    v
}

fn run(ctx: &Ctx) {
    ctx.run_regress::<Case, _>(check);
    let seed = ctx.seed;
    let n = ctx.tier.pick(5, 6);
    let count = gen::exh_count(13, n);
    ctx.run_indexed("exh-bytes-x-all-configs", count * 128, |i| Some(Case { input: B(gen::exh_bytes(gen::SIGMA1, i / 128)), cfg: (i % 128) as u8, source: 0 }), check);
    let n2 = ctx.tier.pick(4, 5);
    let count2 = gen::exh_count(gen::SIGMA2.len() as u64, n2);
    ctx.run_indexed("exh-bytes-alphabet2-x-all-configs", count2 * 128 * 2, |i| Some(Case { input: B(gen::exh_bytes(gen::SIGMA2, i / 256)), cfg: (i % 128) as u8, source: if (i / 128) % 2 == 0 { 0 } else { 2 } }), check);
    let n3 = ctx.tier.pick(4, 5);
    let count3 = gen::exh_count(gen::SIGMA3.len() as u64, n3);
    ctx.run_indexed("exh-bytes-alphabet3-x-all-configs", count3 * 128 * 2, |i| Some(Case { input: B(gen::exh_bytes(gen::SIGMA3, i / 256)), cfg: (i % 128) as u8, source: if (i / 128) % 2 == 0 { 0 } else { 2 } }), check);
    // buffered sources: skip_whitespace / trimming are implemented per source
    let nb = ctx.tier.pick(4, 5);
    let countb = gen::exh_count(13, nb);
    ctx.run_indexed("exh-bytes-x-all-configs-buffered", countb * 256, |i| Some(Case { input: B(gen::exh_bytes(gen::SIGMA1, i / 256)), cfg: (i % 128) as u8, source: 1 + ((i / 128) % 2) as u8 }), check);
    let k = ctx.tier.pick(3, 4);
    let tcount = gen::exh_count(gen::TOKENS.len() as u64, k);
    let per = ctx.tier.pick(16, 32);
    ctx.run_indexed(
        "exh-tokens-x-rotated-configs",
        tcount * per,
        |i| {
            let mut r = SplitMix64::derive(seed, "c16-rot", i);
            Some(Case { input: B(gen::exh_tokens(gen::TOKENS, i / per)), cfg: (((i % per) * (128 / per)) as u8).wrapping_add((r.next() % (128 / per)) as u8) & 127, source: (r.next() % 3) as u8 })
        },
        check,
    );
    let corpus = gen::corpus();
    ctx.run_indexed("corpus-x-all-configs", corpus.len() as u64 * 128, |i| Some(Case { input: B(corpus[(i / 128) as usize].1.clone()), cfg: (i % 128) as u8, source: ((i / 128) % 2) as u8 }), check);
    let strat = (gen::soup_strategy(16), 0u8..128, 0u8..3).prop_map(|(input, cfg, source)| Case { input: B(input), cfg, source });
    ctx.run_proptest("soup", ctx.tier.pick(1_000_000, 8_000_000), strat, check);
    // switches flipped in the middle of the document == restart with the new switches
    let nf = ctx.tier.pick(5, 6);
    let fcount = gen::exh_count(gen::SIGMA3.len() as u64, nf);
    ctx.run_indexed(
        "exh-bytes-alphabet3-x-flip-mid-stream",
        fcount * 6,
        |i| {
            let mut r = SplitMix64::derive(seed, "c16-flip3", i);
            Some(FlipCase { input: B(gen::exh_bytes(gen::SIGMA3, i / 6)), c1: r.next() as u8, c2: r.next() as u8, k: 1 + (i % 3) as u8, buffered: (i / 3) % 2 == 1 })
        },
        check_flip,
    );
    let nf1 = ctx.tier.pick(5, 6);
    let fcount1 = gen::exh_count(13, nf1);
    ctx.run_indexed(
        "exh-bytes-x-flip-mid-stream",
        fcount1 * 2,
        |i| {
            let mut r = SplitMix64::derive(seed, "c16-flip1", i);
            Some(FlipCase { input: B(gen::exh_bytes(gen::SIGMA1, i / 2)), c1: r.next() as u8, c2: r.next() as u8, k: 1 + r.below(3) as u8, buffered: i % 2 == 1 })
        },
        check_flip,
    );
    let fstrat = (gen::soup_strategy(16), any::<u8>(), any::<u8>(), 1u8..12, any::<bool>()).prop_map(|(input, c1, c2, k, buffered)| FlipCase { input: B(input), c1, c2, k, buffered });
    ctx.run_proptest("soup-x-flip-mid-stream", ctx.tier.pick(600_000, 5_000_000), fstrat, check_flip);
    // offset and length sweep, large inputs (see gen.rs) x four rotated combinations x three sources
    let (pmax, qmax, vars) = ctx.tier.pick((130u64, 70u64, 1u64), (260, 140, 2));
    ctx.run_indexed(
        "offset-and-length-sweep",
        gen::sweep_count(pmax, qmax, vars) * 4,
        |i| {
            let mut r = SplitMix64::derive(seed, "c16-sweep", i);
            Some(Case { input: B(gen::sweep_nth(i / 4, pmax, qmax, vars)), cfg: (((i % 4) * 32) as u8).wrapping_add((r.next() % 32) as u8) & 127, source: (r.next() % 3) as u8 })
        },
        check,
    );
    ctx.run_indexed(
        "large-inputs",
        gen::big_count() * 6,
        |i| {
            let mut r = SplitMix64::derive(seed, "c16-big", i);
            Some(Case { input: B(gen::big_nth(i / 6)), cfg: (r.next() & 127) as u8, source: ((i % 6) / 3) as u8 })
        },
        check,
    );
}

/// Switches changed in the middle of a document: after `k` read calls the trimming / comment
/// checking / end-name trimming switches are set to other values. The options are read at every
/// call, so from there on the reader must behave exactly like a fresh reader with the new values on
/// the rest of the input (positions shifted). No model involved; name checks and expansion stay off
/// (they carry state across events - C04's subject).
#[derive(Clone, Debug, Serialize, Deserialize, PartialEq)]
pub struct FlipCase {
    pub input: B,
    pub c1: u8,
    pub c2: u8,
    pub k: u8,
    /// read through read_event_into over 3-byte pieces instead of the borrowing reader
    pub buffered: bool,
}

const FLIP_MASK: u8 = TRIM_START | TRIM_END | CHECK_COMMENTS | TRIM_NAMES;

pub fn check_flip(c: &FlipCase) -> Verdict {
    let data = &c.input.0;
    if refxml::is_utf16_like(data) {
        return Verdict::excluded("utf16-signature");
    }
    let (c1, c2) = ((c.c1 & FLIP_MASK) | ALLOW_UNMATCHED, (c.c2 & FLIP_MASK) | ALLOW_UNMATCHED);
    let k = c.k as usize;
    // run A: one reader, switches flipped after k calls
    let mut a: Vec<Rec> = vec![];
    {
        let bound = call_bound(data.len()) + EXTRA_CALLS;
        macro_rules! pump {
            ($r:ident, $read:expr) => {{
                apply_cfg($r.config_mut(), c1);
                let mut extra = 0;
                for i in 0..bound {
                    if i == k {
                        apply_cfg($r.config_mut(), c2);
                    }
                    let e = $read;
                    let ev = ev_of(&e);
                    drop(e);
                    let done = matches!(ev, Ev::Eof) || ev.is_fatal();
                    a.push(Rec { ev, pos: $r.buffer_position(), err_pos: $r.error_position() });
                    if done || extra > 0 {
                        extra += 1;
                        if extra > EXTRA_CALLS {
                            break;
                        }
                    }
                }
            }};
        }
        if c.buffered {
            let cuts = crate::props::c02::normalise_cuts(data, &crate::sources::cuts_fixed(3, data.len()));
            let mut r = quick_xml::Reader::from_reader(crate::sources::ChunkedBufRead::new(data, cuts));
            let mut buf = Vec::new();
            pump!(r, {
                buf.clear();
                r.read_event_into(&mut buf)
            });
        } else {
            let mut r = quick_xml::Reader::from_reader(&data[..]);
            pump!(r, r.read_event());
        }
    }
    if k == 0 || a.len() <= k || matches!(a[k - 1].ev, Ev::Eof) || a[k - 1].ev.is_fatal() {
        return Verdict::pass(false).class("flip-after-the-end");
    }
    let p = a[k - 1].pos as usize;
    let bom_len = if data.starts_with(&refxml::UTF8_BOM) { 3 } else { 0 };
    let rest = &data[(p + bom_len).min(data.len())..];
    if rest.starts_with(&refxml::UTF8_BOM) || refxml::is_utf16_like(rest) {
        return Verdict::excluded("rest-starts-with-a-signature");
    }
    let fresh = read_slice(rest, c2);
    let tail = &a[k..];
    for (i, f) in fresh.iter().enumerate() {
        let want_pos = f.pos + p as u64;
        match tail.get(i) {
            Some(t) if t.ev == f.ev && t.pos == want_pos && (!f.ev.is_err() || t.err_pos == f.err_pos + p as u64) => {}
            other => {
                return Verdict::fail(format!(
                    "after {} calls under {} the switches were set to {}; call {} then returned {:?}, a fresh reader with these switches on the rest of the input (from offset {}) returns {:?}@{} (error position {}) | {} source | input {:?} | whole run: {}",
                    k, cfg_show(c1), cfg_show(c2), k + i, other, p, f.ev, want_pos, f.err_pos + p as u64, if c.buffered { "buffered" } else { "slice" }, B::show(data), show_recs(&a)
                ))
            }
        }
    }
    Verdict::pass(c1 != c2 && fresh.len() > 1 + EXTRA_CALLS).class("flip-mid-stream")
}

fn replay(_stage: &str, case: &Value) -> Result<Verdict, String> {
    if case.get("c2").is_some() {
        let c: FlipCase = serde_json::from_value(case.clone()).map_err(|e| e.to_string())?;
        return Ok(check_flip(&c));
    }
    let c: Case = serde_json::from_value(case.clone()).map_err(|e| e.to_string())?;
    Ok(check(&c))
}
