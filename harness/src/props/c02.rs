//! C02 — events are independent of the source type and of how the input is chunked.
//! Purely differential: no reference model involved.

use super::PropInfo;
use crate::engine::{Ctx, SplitMix64, Verdict, B};
use crate::gen;
use crate::rec::*;
use crate::refxml;
use crate::sources::{block_on, cuts_from_mask, ChunkedAsync, ChunkedBufRead};
use quick_xml::events::Event;
use quick_xml::reader::Reader;
use proptest::prelude::*;
use serde::{Deserialize, Serialize};
use serde_json::Value;

#[derive(Clone, Debug, Serialize, Deserialize, PartialEq)]
pub struct Case {
    pub input: B,
    pub cfg: u8,
    /// piece boundaries (offsets), strictly increasing
    pub cuts: Vec<usize>,
    /// Pending results before the k-th refill (async source)
    pub pend: Vec<u8>,
    /// clear the event buffer between calls
    pub clear: bool,
}

pub fn info() -> PropInfo {
    PropInfo {
        id: "C02",
        run,
        replay,
        rule: "cases = (input, configuration, cut set, pending pattern, buffer policy). The record sequences (event or error, buffer_position, error_position after every call, up to and including the calls after the end) of read_event on the slice, read_event_into on the whole slice, read_event_into over the chunked BufRead and read_event_into_async over the chunked AsyncBufRead with the pending pattern must be identical. All 2^(n-1) cut sets for every enumerated string; single cuts, cut pairs, fixed piece sizes and random cut sets for longer inputs. Non-trivial = at least one cut falls strictly inside a markup construct. Two further enumerations vary SIZE and OFFSET: fourteen construct kinds (text, long name, quoted value with '>', many attributes, blanks inside tags, comment / CDATA / PI bodies with near-terminators, DOCTYPE with nested brackets, blank runs around text, reference runs, declaration, deep nesting) with an inner length 0..=70 placed after a prefix of 0..=130 bytes, and large inputs whose variable part is 255..70 001 bytes long (block-wise scanners, buffer growth, positions beyond 255 / 65 535, default BufReader capacity). A further stage interleaves RAW reads through Reader::stream() with the events (read_exact of 1..9 bytes, read_until(b'>') through the BufRead half, read_to_end; the sync and the async implementations): the bytes obtained, the positions after the raw read and every later record must be the same for the slice, the chunked BufRead and the chunked AsyncBufRead. Documents made of namespace-heavy pieces are read with NsReader::read_resolved_event / _into / _into_async: resolution result, event, error and positions of every call must agree between the three sources (also after ill-formedness errors the caller reads past). Corpus documents, soups and large inputs are also written to temporary files and read through Reader::from_file and NsReader::from_file: same records as the slice.",
        assumptions: &[
            "when the input starts with (a prefix of) a BOM or a UTF-16 signature the first piece is at least 4 bytes (the exception written into the property)",
            "the harness executor polls single-threaded; every Pending is preceded by a wake-up",
        ],
        level: "exploration",
        variants: &["full", "min"],
    }
}

/// Does the input start with a COMPLETE byte-order mark / encoding signature? Only then may the
/// sniff (which looks at the first piece only - the exception written into the property) see
/// something different in a short first piece. An input that merely shares a first byte or two with
/// a signature (`U+FF21` = EF BC A1) must be read the same under every chunking.
fn sniffable(data: &[u8]) -> bool {
    const SIGNATURES: &[&[u8]] = &[&[0xEF, 0xBB, 0xBF], &[0xFE, 0xFF], &[0xFF, 0xFE], &[0x00, 0x3C, 0x00, 0x3F], &[0x3C, 0x00, 0x3F, 0x00], &[0x00, 0x3C], &[0x3C, 0x00]];
    SIGNATURES.iter().any(|s| data.starts_with(s))
}

pub fn normalise_cuts(data: &[u8], cuts: &[usize]) -> Vec<usize> {
    let mut c: Vec<usize> = cuts.iter().copied().filter(|&x| x > 0 && x < data.len()).collect();
    c.sort();
    c.dedup();
    if sniffable(data) {
        c.retain(|&x| x >= 4);
    }
    c
}

pub fn check(c: &Case) -> Verdict {
    let data = &c.input.0;
    let cuts = normalise_cuts(data, &c.cuts);
    let base = read_slice(data, c.cfg);
    let whole = read_buffered(data, c.cfg, &[], c.clear);
    if let Some(d) = first_diff(&base, &whole) {
        return Verdict::fail(format!("slice vs buffered(whole): {} | cfg={} | slice: {} | buffered: {}", d, cfg_show(c.cfg), show_recs(&base), show_recs(&whole)));
    }
    let chunked = read_buffered(data, c.cfg, &cuts, c.clear);
    if let Some(d) = first_diff(&base, &chunked) {
        return Verdict::fail(format!("slice vs buffered(cuts {:?}): {} | cfg={} | slice: {} | chunked: {}", cuts, d, cfg_show(c.cfg), show_recs(&base), show_recs(&chunked)));
    }
    let asy = read_async(data, c.cfg, &cuts, &c.pend, c.clear);
    if let Some(d) = first_diff(&base, &asy) {
        return Verdict::fail(format!("slice vs async(cuts {:?}, pend {:?}): {} | cfg={} | slice: {} | async: {}", cuts, c.pend, d, cfg_show(c.cfg), show_recs(&base), show_recs(&asy)));
    }
    // the decoder the reader ends up with (sniffed signature / declaration) is part of what it tells
    // about the document: the same for every source
    if data.iter().any(|b| *b == 0 || *b >= 0x80) || data.starts_with(b"<?xml") {
        let bound = call_bound(data.len());
        let a = {
            let mut r = Reader::from_reader(&data[..]);
            apply_cfg(r.config_mut(), c.cfg);
            for _ in 0..bound {
                if !matches!(r.read_event(), Ok(e) if e != Event::Eof) {
                    break;
                }
            }
            format!("{:?}", r.decoder())
        };
        let b = {
            let mut r = Reader::from_reader(ChunkedBufRead::new(data, cuts.clone()));
            apply_cfg(r.config_mut(), c.cfg);
            let mut buf = Vec::new();
            for _ in 0..bound {
                buf.clear();
                if !matches!(r.read_event_into(&mut buf), Ok(e) if e != Event::Eof) {
                    break;
                }
            }
            format!("{:?}", r.decoder())
        };
        let d = {
            let mut r = Reader::from_reader(ChunkedAsync::new(data, cuts.clone(), c.pend.clone()));
            apply_cfg(r.config_mut(), c.cfg);
            let mut buf = Vec::new();
            for _ in 0..bound {
                buf.clear();
                if !matches!(block_on(r.read_event_into_async(&mut buf)), Ok(e) if e != Event::Eof) {
                    break;
                }
            }
            format!("{:?}", r.decoder())
        };
        if a != b || a != d {
            return Verdict::fail(format!("decoder after the run: slice {}, buffered(cuts {:?}) {}, async {} | cfg={} | input {:?}", a, cuts, b, d, cfg_show(c.cfg), B::show(data)));
        }
    }
    // classification: where do the cuts fall?
    let toks = refxml::lex(data);
    let mut v = Verdict::pass(false);
    for &cut in &cuts {
        for l in &toks {
            if matches!(l.tok, refxml::Tok::Text(_)) {
                continue;
            }
            if cut > l.start && cut < l.end {
                v.nontrivial = true;
                let tail = l.end - cut;
                match &l.tok {
                    refxml::Tok::Comment(_) | refxml::Tok::CData(_) if tail <= 2 => v.classes.push("cut-inside-3-byte-terminator"),
                    refxml::Tok::PI(..) | refxml::Tok::Decl(_) if tail == 1 => v.classes.push("cut-inside-pi-terminator"),
                    refxml::Tok::Start(..) | refxml::Tok::Empty(..) | refxml::Tok::End(_) => {
                        let inside = &data[l.start..cut];
                        let q1 = inside.iter().filter(|b| **b == b'"').count();
                        let q2 = inside.iter().filter(|b| **b == b'\'').count();
                        if q1 % 2 == 1 || q2 % 2 == 1 {
                            v.classes.push("cut-inside-quoted-value");
                        }
                    }
                    refxml::Tok::DocType(c) if c.contains(&b'<') => v.classes.push("cut-inside-nested-doctype"),
                    refxml::Tok::ErrSyntax(_) => v.classes.push("cut-inside-truncated-construct"),
                    _ => {}
                }
                if cut - l.start <= 8 {
                    v.classes.push("cut-inside-opening-delimiter-region");
                }
            }
        }
    }
    v.classes.sort();
    v.classes.dedup();
    if c.pend.iter().any(|p| *p > 0) {
        v.classes.push("async-with-pending");
    }
    v
}



// ---------------------------------------------------------------------------------------------
// hand-over through `into_inner`: after k calls the reader is taken apart and a NEW reader with the
// same configuration is built on the source it gives back. Whatever the source type and the
// chunking, the source must come back positioned exactly behind what the events accounted for, so
// the records of the second reader must not depend on them either.

fn until_done(out: &mut Vec<Rec>, bound: usize, mut next: impl FnMut() -> Rec) {
    let mut extra = 0;
    for _ in 0..bound {
        let rec = next();
        let done = matches!(rec.ev, Ev::Eof) || rec.ev.is_fatal();
        out.push(rec);
        if done || extra > 0 {
            extra += 1;
            if extra > crate::rec::EXTRA_CALLS {
                break;
            }
        }
    }
}

/// None = the run ended before the hand-over point
fn handover_slice(data: &[u8], bits: u8, k: usize) -> (Vec<Rec>, Option<Vec<u8>>) {
    let mut r = Reader::from_reader(data);
    apply_cfg(r.config_mut(), bits);
    let mut out = vec![];
    for _ in 0..k {
        let e = r.read_event();
        let ev = ev_of(&e);
        drop(e);
        let done = matches!(ev, Ev::Eof) || ev.is_fatal();
        out.push(Rec { ev, pos: r.buffer_position(), err_pos: r.error_position() });
        if done {
            return (out, None);
        }
    }
    let cfg = r.config().clone();
    let seen_by_get_ref: Vec<u8> = r.get_ref().to_vec();
    let rest: &[u8] = r.into_inner();
    if rest != &seen_by_get_ref[..] {
        out.push(Rec { ev: Ev::Other("get_ref and into_inner show different sources".into()), pos: 0, err_pos: 0 });
        return (out, None);
    }
    let mut r2 = Reader::from_reader(rest);
    *r2.config_mut() = cfg;
    until_done(&mut out, crate::rec::call_bound(data.len()) + crate::rec::EXTRA_CALLS, || {
        let e = r2.read_event();
        let ev = ev_of(&e);
        drop(e);
        Rec { ev, pos: r2.buffer_position(), err_pos: r2.error_position() }
    });
    (out, Some(rest.to_vec()))
}

fn handover_buffered(data: &[u8], bits: u8, cuts: &[usize], k: usize, clear: bool) -> Vec<Rec> {
    let mut r = Reader::from_reader(ChunkedBufRead::new(data, cuts.to_vec()));
    apply_cfg(r.config_mut(), bits);
    let mut out = vec![];
    let mut buf = Vec::new();
    for _ in 0..k {
        if clear {
            buf.clear();
        }
        let e = r.read_event_into(&mut buf);
        let ev = ev_of(&e);
        drop(e);
        let done = matches!(ev, Ev::Eof) || ev.is_fatal();
        out.push(Rec { ev, pos: r.buffer_position(), err_pos: r.error_position() });
        if done {
            return out;
        }
    }
    let cfg = r.config().clone();
    let _ = r.get_ref();
    let _ = r.get_mut();
    let mut r2 = Reader::from_reader(r.into_inner());
    *r2.config_mut() = cfg;
    let mut buf = Vec::new();
    until_done(&mut out, crate::rec::call_bound(data.len()) + crate::rec::EXTRA_CALLS, || {
        if clear {
            buf.clear();
        }
        let e = r2.read_event_into(&mut buf);
        let ev = ev_of(&e);
        drop(e);
        Rec { ev, pos: r2.buffer_position(), err_pos: r2.error_position() }
    });
    out
}

fn handover_async(data: &[u8], bits: u8, cuts: &[usize], pend: &[u8], k: usize, clear: bool) -> Vec<Rec> {
    let mut r = Reader::from_reader(ChunkedAsync::new(data, cuts.to_vec(), pend.to_vec()));
    apply_cfg(r.config_mut(), bits);
    let mut out = vec![];
    let mut buf = Vec::new();
    for _ in 0..k {
        if clear {
            buf.clear();
        }
        let ev = {
            let e = block_on(r.read_event_into_async(&mut buf));
            ev_of(&e)
        };
        let done = matches!(ev, Ev::Eof) || ev.is_fatal();
        out.push(Rec { ev, pos: r.buffer_position(), err_pos: r.error_position() });
        if done {
            return out;
        }
    }
    let cfg = r.config().clone();
    let mut r2 = Reader::from_reader(r.into_inner());
    *r2.config_mut() = cfg;
    let mut buf = Vec::new();
    until_done(&mut out, crate::rec::call_bound(data.len()) + crate::rec::EXTRA_CALLS, || {
        if clear {
            buf.clear();
        }
        let ev = {
            let e = block_on(r2.read_event_into_async(&mut buf));
            ev_of(&e)
        };
        Rec { ev, pos: r2.buffer_position(), err_pos: r2.error_position() }
    });
    out
}

pub fn check_handover(c: &Case) -> Verdict {
    let data = &c.input.0;
    let cuts = normalise_cuts(data, &c.cuts);
    // the hand-over point: a pure function of the case
    let k = 1 + (c.pend.iter().map(|p| *p as usize).sum::<usize>() + c.cuts.len()) % 4;
    let (base, rest) = handover_slice(data, c.cfg, k);
    if let Some(last) = base.last() {
        if let Ev::Other(m) = &last.ev {
            if m.starts_with("get_ref") {
                return Verdict::fail(m.clone());
            }
        }
    }
    let rest = match rest {
        Some(r) => r,
        None => return Verdict::excluded("run-ended-before-the-hand-over"),
    };
    // the second reader sniffs its first piece like any reader: a remainder that begins with a
    // byte of a signature is under the exception written into the property
    if matches!(rest.first(), Some(0xEF | 0xFE | 0xFF | 0x00)) || rest.get(1) == Some(&0) {
        return Verdict::excluded("remainder-starts-like-a-signature");
    }
    let chunked = handover_buffered(data, c.cfg, &cuts, k, c.clear);
    if let Some(d) = first_diff(&base, &chunked) {
        return Verdict::fail(format!("hand-over through into_inner after {} calls, slice vs buffered(cuts {:?}): {} | cfg={} | slice: {} | chunked: {}", k, cuts, d, cfg_show(c.cfg), show_recs(&base), show_recs(&chunked)));
    }
    let asy = handover_async(data, c.cfg, &cuts, &c.pend, k, c.clear);
    if let Some(d) = first_diff(&base, &asy) {
        return Verdict::fail(format!("hand-over through into_inner after {} calls, slice vs async(cuts {:?}, pend {:?}): {} | cfg={} | slice: {} | async: {}", k, cuts, c.pend, d, cfg_show(c.cfg), show_recs(&base), show_recs(&asy)));
    }
    let mut v = Verdict::pass(!cuts.is_empty() && !rest.is_empty());
    v.classes.push("handed-over-through-into_inner");
    if rest.is_empty() {
        v.classes.push("nothing-left-at-the-hand-over");
    }
    v
}

// ---------------------------------------------------------------------------------------------
// raw reads through `Reader::stream()` between events: the bytes obtained, the positions after the
// raw read and everything read afterwards must not depend on the source type or the chunking

#[derive(Clone, Debug, Serialize, Deserialize, PartialEq)]
pub struct RawCase {
    pub input: B,
    pub cfg: u8,
    pub cuts: Vec<usize>,
    pub pend: Vec<u8>,
    /// (after read call number k (>= 1), byte count 1..=9, method: 0 read_exact, 1 read_until(b'>')
    /// through the BufRead half, 2 read_to_end)
    pub raws: Vec<(u8, u8, u8)>,
}

fn raw_rec(bytes: &[u8], ok: bool, pos: u64, err_pos: u64) -> Rec {
    Rec { ev: Ev::Other(format!("raw read ok={} bytes={}", ok, B::show(bytes))), pos, err_pos }
}

macro_rules! drive_raw {
    ($r:ident, $len:expr, $raws:expr, $read:expr, $exact:expr, $until:expr, $all:expr, $n:ident, $v:ident) => {{
        let mut out: Vec<Rec> = vec![];
        let mut extra = 0;
        let mut calls = 0usize;
        for _ in 0..call_bound($len) + EXTRA_CALLS {
            let ev = $read;
            calls += 1;
            let done = matches!(ev, Ev::Eof) || ev.is_fatal();
            out.push(Rec { ev, pos: $r.buffer_position(), err_pos: $r.error_position() });
            if done || extra > 0 {
                extra += 1;
                if extra > EXTRA_CALLS {
                    break;
                }
                continue;
            }
            for (at, cnt, how) in $raws.iter() {
                if *at as usize == calls {
                    let $n = 1 + (*cnt as usize % 9);
                    let mut $v: Vec<u8> = vec![];
                    let ok: bool = match how % 3 {
                        0 => {
                            $v = vec![0u8; $n];
                            let ok = $exact;
                            if !ok {
                                // what the receiver holds after a failed read_exact is unspecified
                                $v.clear();
                            }
                            ok
                        }
                        1 => $until,
                        _ => $all,
                    };
                    out.push(raw_rec(&$v, ok, $r.buffer_position(), $r.error_position()));
                }
            }
        }
        out
    }};
}

pub fn check_raw(c: &RawCase) -> Verdict {
    use tokio::io::{AsyncBufReadExt, AsyncReadExt};
    let data = &c.input.0;
    let len = data.len();
    let cuts = normalise_cuts(data, &c.cuts);
    let base = {
        let mut r = Reader::from_reader(&data[..]);
        apply_cfg(r.config_mut(), c.cfg);
        drive_raw!(r, len, c.raws, ev_of(&r.read_event()), std::io::Read::read_exact(&mut r.stream(), &mut v).is_ok(), std::io::BufRead::read_until(&mut r.stream(), b'>', &mut v).is_ok(), std::io::Read::read_to_end(&mut r.stream(), &mut v).is_ok(), n, v)
    };
    let chunked = {
        let mut r = Reader::from_reader(ChunkedBufRead::new(data, cuts.clone()));
        apply_cfg(r.config_mut(), c.cfg);
        let mut buf = Vec::new();
        drive_raw!(
            r,
            len,
            c.raws,
            {
                buf.clear();
                ev_of(&r.read_event_into(&mut buf))
            },
            std::io::Read::read_exact(&mut r.stream(), &mut v).is_ok(),
            std::io::BufRead::read_until(&mut r.stream(), b'>', &mut v).is_ok(),
            std::io::Read::read_to_end(&mut r.stream(), &mut v).is_ok(),
            n,
            v
        )
    };
    if let Some(d) = first_diff(&base, &chunked) {
        return Verdict::fail(format!("with raw reads {:?}: slice vs buffered(cuts {:?}): {} | cfg={} | slice: {} | chunked: {}", c.raws, cuts, d, cfg_show(c.cfg), show_recs(&base), show_recs(&chunked)));
    }
    let asy = {
        let mut r = Reader::from_reader(ChunkedAsync::new(data, cuts.clone(), c.pend.clone()));
        apply_cfg(r.config_mut(), c.cfg);
        let mut buf = Vec::new();
        drive_raw!(
            r,
            len,
            c.raws,
            {
                buf.clear();
                let e = block_on(r.read_event_into_async(&mut buf));
                ev_of(&e)
            },
            block_on(AsyncReadExt::read_exact(&mut r.stream(), &mut v)).is_ok(),
            block_on(AsyncBufReadExt::read_until(&mut r.stream(), b'>', &mut v)).is_ok(),
            block_on(AsyncReadExt::read_to_end(&mut r.stream(), &mut v)).is_ok(),
            n,
            v
        )
    };
    if let Some(d) = first_diff(&base, &asy) {
        return Verdict::fail(format!("with raw reads {:?}: slice vs async(cuts {:?}, pend {:?}): {} | cfg={} | slice: {} | async: {}", c.raws, cuts, c.pend, d, cfg_show(c.cfg), show_recs(&base), show_recs(&asy)));
    }
    // the raw reads account for their bytes: position after = position before + bytes obtained
    let mut v = Verdict::pass(false);
    let mut prev = 0u64;
    for rec in &base {
        if let Ev::Other(m) = &rec.ev {
            if m.starts_with("raw read ok=true") {
                v.classes.push("raw-read-between-events");
            }
        }
        if rec.pos < prev {
            return Verdict::fail(format!("position decreases around a raw read: {}", show_recs(&base)));
        }
        prev = rec.pos;
    }
    // non-trivial: a raw read that obtained bytes, and a cut inside the bytes it covered or later
    let raw_done = base.iter().any(|r| matches!(&r.ev, Ev::Other(m) if m.starts_with("raw read ok=true")));
    v.nontrivial = raw_done && !cuts.is_empty();
    if c.pend.iter().any(|p| *p > 0) {
        v.classes.push("async-with-pending");
    }
    v
}


// ---------------------------------------------------------------------------------------------
// the namespace-aware reader: what read_resolved_event / _into / _into_async return (resolution
// result AND event, errors, positions) must not depend on the source type or the chunking either

fn ns_rec<E: std::fmt::Debug>(res: &Result<(quick_xml::name::ResolveResult, Event), E>, pos: u64, err_pos: u64) -> (Rec, bool) {
    match res {
        Ok((ns, ev)) => {
            let plain: Result<Event, quick_xml::Error> = Ok(ev.clone());
            let ev0 = ev_of(&plain);
            let done = matches!(ev0, Ev::Eof);
            (Rec { ev: Ev::Other(format!("{:?} / {:?}", ns, ev0)), pos, err_pos }, done)
        }
        Err(e) => (Rec { ev: Ev::Other(format!("error {:?}", e)), pos, err_pos }, false),
    }
}

pub fn check_ns(c: &Case) -> Verdict {
    use quick_xml::reader::NsReader;
    let data = &c.input.0;
    let cuts = normalise_cuts(data, &c.cuts);
    let bound = call_bound(data.len()) + EXTRA_CALLS;
    let base: Vec<Rec> = {
        let mut r = NsReader::from_reader(&data[..]);
        apply_cfg(r.config_mut(), c.cfg);
        let mut out = vec![];
        let mut extra = 0;
        for _ in 0..bound {
            let res = r.read_resolved_event();
            let fatal = matches!(&res, Err(quick_xml::Error::Syntax(_)) | Err(quick_xml::Error::Io(_)) | Err(quick_xml::Error::Encoding(_)));
            let (rec, done) = ns_rec(&res, 0, 0);
            drop(res);
            out.push(Rec { pos: r.buffer_position(), err_pos: r.error_position(), ..rec });
            if done || fatal || extra > 0 {
                extra += 1;
                if extra > EXTRA_CALLS {
                    break;
                }
            }
        }
        out
    };
    let chunked: Vec<Rec> = {
        let mut r = NsReader::from_reader(ChunkedBufRead::new(data, cuts.clone()));
        apply_cfg(r.config_mut(), c.cfg);
        let mut out = vec![];
        let mut extra = 0;
        let mut buf = Vec::new();
        for _ in 0..bound {
            if c.clear {
                buf.clear();
            }
            let res = r.read_resolved_event_into(&mut buf);
            let fatal = matches!(&res, Err(quick_xml::Error::Syntax(_)) | Err(quick_xml::Error::Io(_)) | Err(quick_xml::Error::Encoding(_)));
            let (rec, done) = ns_rec(&res, 0, 0);
            drop(res);
            out.push(Rec { pos: r.buffer_position(), err_pos: r.error_position(), ..rec });
            if done || fatal || extra > 0 {
                extra += 1;
                if extra > EXTRA_CALLS {
                    break;
                }
            }
        }
        out
    };
    if let Some(d) = first_diff(&base, &chunked) {
        return Verdict::fail(format!("NsReader resolved reads: slice vs buffered(cuts {:?}): {} | cfg={} | slice: {} | chunked: {}", cuts, d, cfg_show(c.cfg), show_recs(&base), show_recs(&chunked)));
    }
    let asy: Vec<Rec> = {
        let mut r = NsReader::from_reader(ChunkedAsync::new(data, cuts.clone(), c.pend.clone()));
        apply_cfg(r.config_mut(), c.cfg);
        let mut out = vec![];
        let mut extra = 0;
        let mut buf = Vec::new();
        for _ in 0..bound {
            if c.clear {
                buf.clear();
            }
            let (rec, done, fatal) = {
                let res = block_on(r.read_resolved_event_into_async(&mut buf));
                let fatal = matches!(&res, Err(quick_xml::Error::Syntax(_)) | Err(quick_xml::Error::Io(_)) | Err(quick_xml::Error::Encoding(_)));
                let (rec, done) = ns_rec(&res, 0, 0);
                (rec, done, fatal)
            };
            out.push(Rec { pos: r.buffer_position(), err_pos: r.error_position(), ..rec });
            if done || fatal || extra > 0 {
                extra += 1;
                if extra > EXTRA_CALLS {
                    break;
                }
            }
        }
        out
    };
    if let Some(d) = first_diff(&base, &asy) {
        return Verdict::fail(format!("NsReader resolved reads: slice vs async(cuts {:?}, pend {:?}): {} | cfg={} | slice: {} | async: {}", cuts, c.pend, d, cfg_show(c.cfg), show_recs(&base), show_recs(&asy)));
    }
    let bound_seen = base.iter().any(|r| matches!(&r.ev, Ev::Other(m) if m.starts_with("Bound(")));
    let err_seen = base.iter().any(|r| matches!(&r.ev, Ev::Other(m) if m.starts_with("error IllFormed")));
    let mut v = Verdict::pass(!cuts.is_empty() && (bound_seen || err_seen));
    if bound_seen {
        v.classes.push("a-name-resolved-to-a-namespace");
    }
    if bound_seen && err_seen {
        v.classes.push("ill-formedness-error-and-bound-names-in-one-run");
    }
    v
}


// ---------------------------------------------------------------------------------------------
// Reader::from_file / NsReader::from_file: the file-backed constructors against the slice

static FILE_NO: std::sync::atomic::AtomicU64 = std::sync::atomic::AtomicU64::new(0);

pub fn check_file(c: &Case) -> Verdict {
    let data = &c.input.0;
    let dir = std::env::temp_dir().join(format!("qxv-c02-{}", std::process::id()));
    let path = dir.join(format!("{}.xml", FILE_NO.fetch_add(1, std::sync::atomic::Ordering::Relaxed)));
    if std::fs::create_dir_all(&dir).is_err() || std::fs::write(&path, data).is_err() {
        return Verdict::excluded("temporary-file-could-not-be-written");
    }
    let base = read_slice(data, c.cfg);
    let bound = call_bound(data.len()) + EXTRA_CALLS;
    macro_rules! run_file {
        ($r:ident) => {{
            apply_cfg($r.config_mut(), c.cfg);
            let mut out: Vec<Rec> = vec![];
            let mut extra = 0;
            let mut buf = Vec::new();
            for _ in 0..bound {
                if c.clear {
                    buf.clear();
                }
                let ev = ev_of(&$r.read_event_into(&mut buf));
                let done = matches!(ev, Ev::Eof) || ev.is_fatal();
                out.push(Rec { ev, pos: $r.buffer_position(), err_pos: $r.error_position() });
                if done || extra > 0 {
                    extra += 1;
                    if extra > EXTRA_CALLS {
                        break;
                    }
                }
            }
            out
        }};
    }
    let plain = match Reader::from_file(&path) {
        Ok(mut r) => run_file!(r),
        Err(e) => {
            let _ = std::fs::remove_file(&path);
            return Verdict::fail(format!("Reader::from_file failed on an existing file: {:?}", e));
        }
    };
    let ns = match quick_xml::reader::NsReader::from_file(&path) {
        Ok(mut r) => run_file!(r),
        Err(e) => {
            let _ = std::fs::remove_file(&path);
            return Verdict::fail(format!("NsReader::from_file failed on an existing file: {:?}", e));
        }
    };
    let _ = std::fs::remove_file(&path);
    if let Some(d) = first_diff(&base, &plain) {
        return Verdict::fail(format!("slice vs Reader::from_file: {} | cfg={} | slice: {} | file: {}", d, cfg_show(c.cfg), show_recs(&base), show_recs(&plain)));
    }
    // the namespace-aware reader adds namespace errors of its own; compare when it reported none
    if !ns.iter().any(|r| matches!(&r.ev, Ev::Other(_))) {
        if let Some(d) = first_diff(&base, &ns) {
            return Verdict::fail(format!("slice vs NsReader::from_file: {} | cfg={} | slice: {} | file: {}", d, cfg_show(c.cfg), show_recs(&base), show_recs(&ns)));
        }
    }
    let mut v = Verdict::pass(data.len() > 8192 || base.len() > 4);
    if data.len() > 8192 {
        v.classes.push("file-longer-than-the-BufReader-capacity");
    }
    v
}

fn rot(seed: u64, tag: &str, i: u64) -> SplitMix64 {
    SplitMix64::derive(seed, tag, i)
}

fn run(ctx: &Ctx) {
    ctx.run_regress::<Case, _>(check);
    let seed = ctx.seed;
    // all cut sets of every enumerated string
    let n = ctx.tier.pick(5u32, 6);
    let count = gen::exh_count(13, n);
    let masks = 1u64 << (n - 1);
    ctx.run_indexed(
        "exh-bytes-x-all-cuts",
        count * masks,
        |i| {
            let input = gen::exh_bytes(gen::SIGMA1, i / masks);
            let m = i % masks;
            if input.len() < 2 {
                if m != 0 {
                    return None;
                }
            } else if m >> (input.len() - 1) != 0 {
                return None;
            }
            let mut r = rot(seed, "c02-a", i);
            let cfg = if r.chance(1, 4) { NEUTRAL } else { (r.next() & 127) as u8 };
            let pend = (0..4).map(|_| r.below(3) as u8).collect();
            Some(Case { cuts: cuts_from_mask(m, input.len()), input: B(input), cfg, pend, clear: r.chance(3, 4) })
        },
        check,
    );
    // second alphabet (TAB/LF, `<?xml`): all cut sets
    let n2 = ctx.tier.pick(5u32, 6);
    let count2 = gen::exh_count(gen::SIGMA2.len() as u64, n2);
    let masks2 = 1u64 << (n2 - 1);
    ctx.run_indexed(
        "exh-bytes-alphabet2-x-all-cuts",
        count2 * masks2,
        |i| {
            let input = gen::exh_bytes(gen::SIGMA2, i / masks2);
            let m = i % masks2;
            if input.len() < 2 {
                if m != 0 {
                    return None;
                }
            } else if m >> (input.len() - 1) != 0 {
                return None;
            }
            let mut r = rot(seed, "c02-a2", i);
            let cfg = (r.next() & 127) as u8;
            let pend = (0..4).map(|_| r.below(3) as u8).collect();
            Some(Case { cuts: cuts_from_mask(m, input.len()), input: B(input), cfg, pend, clear: r.chance(3, 4) })
        },
        check,
    );
    // third alphabet (XML blanks vs FF/VT/NUL/0xA0): all cut sets, trimming always on
    let n3 = ctx.tier.pick(4u32, 5);
    let count3 = gen::exh_count(gen::SIGMA3.len() as u64, n3);
    let masks3 = 1u64 << (n3 - 1);
    ctx.run_indexed(
        "exh-bytes-alphabet3-x-all-cuts",
        count3 * masks3,
        |i| {
            let input = gen::exh_bytes(gen::SIGMA3, i / masks3);
            let m = i % masks3;
            if input.len() < 2 {
                if m != 0 {
                    return None;
                }
            } else if m >> (input.len() - 1) != 0 {
                return None;
            }
            let mut r = rot(seed, "c02-a3", i);
            let cfg = (r.next() & 127) as u8 | TRIM_START;
            Some(Case { cuts: cuts_from_mask(m, input.len()), input: B(input), cfg, pend: vec![1, 0, 2], clear: true })
        },
        check,
    );
    // every pending pattern (0..=2 before each of the first four refills) for short strings x all cuts
    let ns = ctx.tier.pick(3u32, 4);
    let scount = gen::exh_count(13, ns);
    let smasks = 1u64 << (ns - 1);
    ctx.run_indexed(
        "exh-bytes-x-all-cuts-x-all-pending-patterns",
        scount * smasks * 81,
        |i| {
            let p = i % 81;
            let m = (i / 81) % smasks;
            let input = gen::exh_bytes(gen::SIGMA1, i / 81 / smasks);
            if input.len() < 2 {
                if m != 0 {
                    return None;
                }
            } else if m >> (input.len() - 1) != 0 {
                return None;
            }
            let mut r = rot(seed, "c02-b", i / 81);
            let pend = vec![(p % 3) as u8, (p / 3 % 3) as u8, (p / 9 % 3) as u8, (p / 27 % 3) as u8];
            Some(Case { cuts: cuts_from_mask(m, input.len()), input: B(input), cfg: (r.next() & 127) as u8, pend, clear: true })
        },
        check,
    );
    // token strings of <= 10 bytes: all cuts; longer ones: fixed sizes and random cut sets
    let k = ctx.tier.pick(3, 4);
    let tcount = gen::exh_count(gen::TOKENS.len() as u64, k);
    ctx.run_indexed(
        "exh-tokens-x-cuts",
        tcount * 512,
        |i| {
            let input = gen::exh_tokens(gen::TOKENS, i / 512);
            let m = i % 512;
            let mut r = rot(seed, "c02-c", i);
            let len = input.len();
            let cuts = if len <= 1 {
                if m != 0 {
                    return None;
                }
                vec![]
            } else if len <= 10 {
                if m >> (len - 1) != 0 {
                    return None;
                }
                cuts_from_mask(m, len)
            } else {
                match m {
                    0 => crate::sources::cuts_fixed(1, len),
                    1 => crate::sources::cuts_fixed(2, len),
                    2 => crate::sources::cuts_fixed(3, len),
                    3..=23 => cuts_from_mask(r.next(), len.min(63)),
                    _ => return None,
                }
            };
            let pend = (0..6).map(|_| r.below(3) as u8).collect();
            Some(Case { input: B(input), cfg: (r.next() & 127) as u8, cuts, pend, clear: r.chance(3, 4) })
        },
        check,
    );
    // corpus: fixed piece sizes, single cuts, cut pairs at distance <= 3, random sets
    let corpus: Vec<Vec<u8>> = gen::corpus().into_iter().map(|c| c.1).filter(|d| d.len() <= ctx.tier.pick(3000, 40_000)).collect();
    let per = ctx.tier.pick(24u64, 200);
    ctx.run_indexed_mode(
        "corpus-x-schedules",
        corpus.len() as u64 * per,
        false,
        |i| {
            let d = &corpus[(i / per) as usize];
            let mut r = rot(seed, "c02-d", i);
            let len = d.len();
            let cuts = match i % per {
                0 => crate::sources::cuts_fixed(1, len),
                1 => crate::sources::cuts_fixed(2, len),
                2 => crate::sources::cuts_fixed(3, len),
                3 => crate::sources::cuts_fixed(5, len),
                4 => crate::sources::cuts_fixed(7, len),
                5 => crate::sources::cuts_fixed(64, len),
                k if k % 3 == 0 => vec![1 + r.below(len.max(2) as u64 - 1) as usize],
                k if k % 3 == 1 => {
                    let a = 1 + r.below(len.max(2) as u64 - 1) as usize;
                    vec![a, a + 1 + r.below(3) as usize]
                }
                _ => {
                    let nc = 8 + r.below(57);
                    (0..nc).map(|_| 1 + r.below(len.max(2) as u64 - 1) as usize).collect()
                }
            };
            let pend = (0..8).map(|_| r.below(3) as u8).collect();
            Some(Case { input: B(d.clone()), cfg: (r.next() & 127) as u8, cuts, pend, clear: r.chance(3, 4) })
        },
        check,
    );
    // proptest: soups with arbitrary cut sets and pending patterns
    let mk_strat = || (gen::soup_strategy(12), 0u8..128, prop::collection::vec(any::<u16>(), 0..10), prop::collection::vec(0u8..3, 0..8), any::<bool>()).prop_map(|(input, cfg, cs, pend, clear)| {
        let len = input.len();
        let cuts = cs.into_iter().map(|c| crate::engine::scale(c, len + 1)).collect();
        Case { input: B(input), cfg, cuts, pend, clear }
    });
    ctx.run_proptest("soup-x-random-schedules", ctx.tier.pick(2_000_000, 12_000_000), mk_strat(), check);
    ctx.run_proptest("soup-x-hand-over-through-into_inner-x-schedules", ctx.tier.pick(500_000, 4_000_000), mk_strat(), check_handover);
    // the namespace-aware reader's resolving reads: documents made of namespace-heavy pieces
    let ns_piece = prop::sample::select(vec![
        "<a xmlns='u1'>", "<p:b xmlns:p='u2'>", "<a xmlns:p=\"urn:p\">", "<p:c/>", "<p:b>", "</p:b>", "</a>", "</x>", "<c xmlns=''/>", "<d xmlns:p=''>", "</d>", "<q:e/>", "<a>", "<b/>", "text", " ", "<!--c-->", "<f p:k='v' k='w'/>",
        "<g xmlns:xml='http://www.w3.org/XML/1998/namespace'>", "</g>", "<h xmlns:q='u3' xmlns='u4'/>", "</p:c>", "<![CDATA[x]]>", "<?pi?>", "<", "</", "<a xmlns:p='u2'/>",
    ]);
    let ns_strat = (prop::collection::vec(ns_piece, 1..12), 0u8..128, prop::collection::vec(any::<u16>(), 0..8), prop::collection::vec(0u8..3, 0..8), any::<bool>()).prop_map(|(pieces, cfg, cs, pend, clear)| {
        let input: Vec<u8> = pieces.concat().into_bytes();
        let len = input.len();
        let cuts = cs.into_iter().map(|c| crate::engine::scale(c, len + 1)).collect();
        Case { input: B(input), cfg, cuts, pend, clear }
    });
    ctx.run_proptest("namespace-pieces-through-NsReader-resolving-reads-x-schedules", ctx.tier.pick(300_000, 3_000_000), ns_strat, check_ns);
    // the file-backed constructors (files are written to the system's temporary directory and removed)
    {
        let nfile = ctx.tier.pick(1500u64, 12_000);
        let ncorp = corpus.len() as u64;
        ctx.run_indexed_mode(
            "corpus-soups-and-large-inputs-through-from_file",
            nfile,
            false,
            |i| {
                let mut r = rot(seed, "c02-file", i);
                let input = match i % 3 {
                    0 => corpus[(i / 3 % ncorp) as usize].clone(),
                    1 => gen::big_nth(i / 3 % gen::big_count()),
                    _ => crate::engine::sample_strategy(&gen::soup_strategy(12), seed ^ (0xF11E + i), 1).pop().unwrap_or_default(),
                };
                Some(Case { input: B(input), cfg: (r.next() & 127) as u8, cuts: vec![], pend: vec![], clear: r.chance(3, 4) })
            },
            check_file,
        );
        let _ = std::fs::remove_dir(std::env::temp_dir().join(format!("qxv-c02-{}", std::process::id())));
    }
    // raw reads through stream() between events
    let strat = (gen::soup_strategy(10), 0u8..128, prop::collection::vec(any::<u16>(), 0..8), prop::collection::vec(0u8..3, 0..8), prop::collection::vec((1u8..6, 0u8..9, prop_oneof![6 => Just(0u8), 3 => Just(1u8), 1 => Just(2u8)]), 1..4)).prop_map(|(input, cfg, cs, pend, raws)| {
        let len = input.len();
        let cuts = cs.into_iter().map(|c| crate::engine::scale(c, len + 1)).collect();
        RawCase { input: B(input), cfg, cuts, pend, raws }
    });
    ctx.run_proptest("soup-x-raw-reads-through-stream-x-schedules", ctx.tier.pick(400_000, 3_000_000), strat, check_raw);
    // offset and length sweep (see gen.rs): fixed piece sizes around the block sizes, and cuts at
    // and next to the boundaries of the construct
    let (pmax, qmax) = ctx.tier.pick((100u64, 50u64), (200, 100));
    ctx.run_indexed(
        "offset-and-length-sweep-x-schedules",
        gen::sweep_count(pmax, qmax, 1) * 3,
        |i| {
            let input = gen::sweep_nth(i / 3, pmax, qmax, 1);
            let mut r = rot(seed, "c02-sweep", i);
            let n = input.len();
            let cuts = match i % 3 {
                0 => crate::sources::cuts_fixed([1usize, 2, 3, 5, 7, 8, 15, 16, 17, 31, 32, 33, 64][r.below(13) as usize], n),
                1 => {
                    // around the construct: its start is at the end of the prefix
                    let p = ((i / 3) / (qmax + 1)) % (pmax + 1);
                    let p = p as usize;
                    vec![p.saturating_sub(1), p, p + 1, p + 2, p + 4, p + 9, n.saturating_sub(6), n.saturating_sub(5), n.saturating_sub(4), n.saturating_sub(3), n.saturating_sub(2), n.saturating_sub(1)]
                }
                _ => (0..4).map(|_| r.below(n as u64 + 1) as usize).collect(),
            };
            let cfg = if r.chance(1, 4) { NEUTRAL } else { (r.next() & 127) as u8 };
            let pend = (0..4).map(|_| r.below(3) as u8).collect();
            Some(Case { cuts, input: B(input), cfg, pend, clear: r.chance(3, 4) })
        },
        check,
    );
    ctx.run_indexed(
        "large-inputs-x-piece-sizes",
        gen::big_count() * 3,
        |i| {
            let input = gen::big_nth(i / 3);
            let mut r = rot(seed, "c02-big", i);
            let n = input.len();
            let cuts = match i % 3 {
                0 => crate::sources::cuts_fixed([7usize, 64, 100, 4096, 8192][r.below(5) as usize], n),
                1 => (0..6).map(|_| r.below(n as u64 + 1) as usize).collect(),
                _ => vec![255, 256, 257, 4095, 4096, 4097, 8191, 8192, 8193, 65535, 65536, 65537],
            };
            Some(Case { cuts, input: B(input), cfg: (r.next() & 127) as u8, pend: vec![0, 1], clear: r.chance(3, 4) })
        },
        check,
    );
}

fn replay(stage: &str, case: &Value) -> Result<Verdict, String> {
    if stage.contains("from_file") {
        let c: Case = serde_json::from_value(case.clone()).map_err(|e| e.to_string())?;
        return Ok(check_file(&c));
    }
    if stage.contains("NsReader") {
        let c: Case = serde_json::from_value(case.clone()).map_err(|e| e.to_string())?;
        return Ok(check_ns(&c));
    }
    if stage.contains("hand-over") {
        let c: Case = serde_json::from_value(case.clone()).map_err(|e| e.to_string())?;
        return Ok(check_handover(&c));
    }
    if stage.contains("raw-reads") {
        let c: RawCase = serde_json::from_value(case.clone()).map_err(|e| e.to_string())?;
        return Ok(check_raw(&c));
    }
    let c: Case = serde_json::from_value(case.clone()).map_err(|e| e.to_string())?;
    Ok(check(&c))
}
