//! C07 — deserialization is total: any input gives a value or an error, never a panic.

use super::PropInfo;
use crate::engine::{sample_strategy, scale, Ctx, Verdict};
use crate::refxml;
use crate::types::*;
use proptest::prelude::*;
use serde::de::IgnoredAny;
use serde::{Deserialize, Serialize};
use serde_json::Value;
use std::collections::HashMap;

#[derive(Clone, Debug, Serialize, Deserialize, PartialEq)]
pub enum Target {
    Fam(Ty),
    TupleStrInner,
    VecTupleInner,
    OptInner,
    Unit,
    Str,
    HashMapStr,
    Ignored,
    OtherEnum,
    VecString,
    Bool,
    F64,
    Char,
    VecChoice,
    OptHolder,
    UnitVec,
    /// sequences/maps through a counting visitor: more items than input bytes = unbounded
    VecOptString,
    VecOptInner,
    VecOptU8,
    VecUnit,
    VecVecString,
    BoundedMap,
    TupleOpts,
    ValueOptStr,
    ValueOptChoice,
    ValueOptInner,
    NestedOpts,
    /// a single `$value` field whose enum has a `$text` NEWTYPE variant with a non-scalar payload
    ValueListPayload,
    ValueUnitPayload,
    ValueTuplePayload,
}

/// `$value` / `$text` fields of optional type (xsi:nil handling paths)
#[derive(Deserialize, Debug)]
#[allow(dead_code)]
pub struct ValueOptStr {
    #[serde(rename = "@a", default)]
    a: Option<String>,
    #[serde(rename = "$value")]
    v: Option<String>,
}
#[derive(Deserialize, Debug)]
#[allow(dead_code)]
pub struct ValueOptChoice {
    #[serde(rename = "$value")]
    v: Option<Choice>,
}
#[derive(Deserialize, Debug)]
#[allow(dead_code)]
pub struct ValueOptInner {
    #[serde(rename = "$value", default)]
    v: Option<Vec<Choice>>,
    #[serde(default)]
    a: Option<ValueOptStr>,
}
#[derive(Deserialize, Debug)]
#[allow(dead_code)]
pub struct NestedOpts {
    a: Option<ValueOptStr>,
    b: Option<Box<NestedOpts>>,
    #[serde(default)]
    c: Vec<Option<ValueOptChoice>>,
}

thread_local! {
    static SEQ_BUDGET: std::cell::Cell<usize> = std::cell::Cell::new(usize::MAX);
    /// set by the counting visitors (the error text alone must not be trusted: the input may
    /// contain the marker string — a libFuzzer campaign produced exactly that)
    static SEQ_OVERRUN: std::cell::Cell<bool> = std::cell::Cell::new(false);
}
pub const UNBOUNDED: &str = "QXV-UNBOUNDED-SEQUENCE";
pub const F14: &str = "F14-zero-length-tuple-consumes-nothing";

/// `Vec<T>` whose visitor gives up (with a recognisable error) after more items than the
/// per-case budget (input length + 16): every item of a sequence must consume input
#[derive(Debug)]
pub struct Bounded<T>(pub Vec<T>);
impl<'de, T: Deserialize<'de>> Deserialize<'de> for Bounded<T> {
    fn deserialize<D: serde::Deserializer<'de>>(d: D) -> Result<Self, D::Error> {
        struct V<T>(std::marker::PhantomData<T>);
        impl<'de, T: Deserialize<'de>> serde::de::Visitor<'de> for V<T> {
            type Value = Bounded<T>;
            fn expecting(&self, f: &mut std::fmt::Formatter) -> std::fmt::Result {
                f.write_str("a sequence")
            }
            fn visit_seq<A: serde::de::SeqAccess<'de>>(self, mut a: A) -> Result<Self::Value, A::Error> {
                let mut out = vec![];
                let budget = SEQ_BUDGET.with(|b| b.get());
                while let Some(x) = a.next_element::<T>()? {
                    out.push(x);
                    if out.len() > budget {
                        SEQ_OVERRUN.with(|f| f.set(true));
                        return Err(serde::de::Error::custom(UNBOUNDED));
                    }
                }
                Ok(Bounded(out))
            }
        }
        d.deserialize_seq(V(std::marker::PhantomData))
    }
}
#[derive(Debug)]
pub struct BoundedMap(pub usize);
impl<'de> Deserialize<'de> for BoundedMap {
    fn deserialize<D: serde::Deserializer<'de>>(d: D) -> Result<Self, D::Error> {
        struct V;
        impl<'de> serde::de::Visitor<'de> for V {
            type Value = BoundedMap;
            fn expecting(&self, f: &mut std::fmt::Formatter) -> std::fmt::Result {
                f.write_str("a map")
            }
            fn visit_map<A: serde::de::MapAccess<'de>>(self, mut a: A) -> Result<Self::Value, A::Error> {
                let mut n = 0;
                let budget = SEQ_BUDGET.with(|b| b.get());
                while let Some(_k) = a.next_key::<String>()? {
                    let _v: Bounded<Option<IgnoredAny>> = a.next_value()?;
                    n += 1;
                    if n > budget {
                        SEQ_OVERRUN.with(|f| f.set(true));
                        return Err(serde::de::Error::custom(UNBOUNDED));
                    }
                }
                Ok(BoundedMap(n))
            }
        }
        d.deserialize_map(V)
    }
}

#[derive(Deserialize, Debug)]
#[allow(dead_code)]
pub struct IgnoredHolder {
    #[serde(rename = "@a", default)]
    a: Option<IgnoredAny>,
    #[serde(default)]
    b: Option<IgnoredAny>,
    #[serde(rename = "$value", default)]
    rest: Vec<IgnoredAny>,
}

#[derive(Deserialize, Debug)]
pub enum OtherEnum {
    Red,
    #[serde(rename = "$text")]
    Text(String),
    #[serde(other)]
    Other,
}

#[derive(Deserialize, Debug)]
#[allow(dead_code)]
pub struct OptHolder {
    a: Option<Inner>,
    b: Option<String>,
    #[serde(rename = "@c")]
    c: Option<u8>,
    d: Option<Vec<Inner>>,
    e: Option<()>,
    #[serde(rename = "$text")]
    t: Option<String>,
}

#[derive(Deserialize, Debug)]
#[allow(dead_code)]
pub struct UnitVec {
    #[serde(rename = "$value", default)]
    v: Vec<()>,
    #[serde(default)]
    a: Vec<UnitS>,
}

/// `$value` (not a list) of an enum whose `$text` newtype variant carries a list / a unit enum / a
/// tuple struct
#[derive(Deserialize, Debug)]
pub enum ListPayload {
    #[serde(rename = "$text")]
    L(Vec<u32>),
    E(u8),
}
#[derive(Deserialize, Debug)]
pub enum UnitPayload {
    #[serde(rename = "$text")]
    U(crate::types::Tag),
    E(u8),
}
#[derive(Deserialize, Debug)]
pub struct PairS(pub u8, pub String);
#[derive(Deserialize, Debug)]
pub enum TuplePayload {
    #[serde(rename = "$text")]
    T(PairS),
    E(u8),
}
#[derive(Deserialize, Debug)]
#[allow(dead_code)]
pub struct ValueListPayload {
    #[serde(rename = "@a", default)]
    a: Option<String>,
    #[serde(rename = "$value")]
    v: ListPayload,
}
#[derive(Deserialize, Debug)]
#[allow(dead_code)]
pub struct ValueUnitPayload {
    #[serde(rename = "$value")]
    v: UnitPayload,
}
#[derive(Deserialize, Debug)]
#[allow(dead_code)]
pub struct ValueTuplePayload {
    #[serde(rename = "$value")]
    v: TuplePayload,
}

pub const ALL_EXTRA: &[Target] = &[
    Target::TupleStrInner,
    Target::VecTupleInner,
    Target::OptInner,
    Target::Unit,
    Target::Str,
    Target::HashMapStr,
    Target::Ignored,
    Target::OtherEnum,
    Target::VecString,
    Target::Bool,
    Target::F64,
    Target::Char,
    Target::VecChoice,
    Target::OptHolder,
    Target::UnitVec,
    Target::VecOptString,
    Target::VecOptInner,
    Target::VecOptU8,
    Target::VecUnit,
    Target::VecVecString,
    Target::BoundedMap,
    Target::TupleOpts,
    Target::ValueOptStr,
    Target::ValueOptChoice,
    Target::ValueOptInner,
    Target::NestedOpts,
    Target::ValueListPayload,
    Target::ValueUnitPayload,
    Target::ValueTuplePayload,
];

/// valid-looking base documents for the extra targets (the family targets get theirs from
/// serialized values)
pub const EXTRA_DOCS: &[&str] = &[
    "<r a=\"1\">text</r>",
    "<r a=\"1\"><Unit/></r>",
    "<r><Newtype>x</Newtype></r>",
    "<r><a a=\"1\">t</a><b><a>u</a><c><Unit/></c></b><c>text</c><c/></r>",
    "<r><Struct y=\"1\"><x>2</x></Struct>t<Unit/></r>",
    "<r><a>x</a><a>y</a><b>z</b></r>",
    "<a>1</a><a>2</a>",
    "<a>x</a><![CDATA[]]><a/>",
    "<r><k1>v</k1><k2>w</k2></r>",
    "text",
    "<r a=\"\"><v>x</v></r>",
    // documents that begin with characters whose UTF-8 form shares one or two bytes with the
    // byte-order mark EF BB BF (but are not one)
    "\u{ff21}\u{ff22}c",
    "\u{fec1}x",
    "\u{ff21}<a>1</a>",
    "<cell>1 2 3</cell>", "<cell a=\"x\">7</cell>", "<shape>A</shape>", "<cell><![CDATA[1 2]]></cell>", "<cell><E>3</E></cell>", "<cell>5 text</cell>",
];

/// attribute snippets injected into start tags
pub const ATTR_SNIPPETS: &[&str] = &[
    " xmlns:xsi=\"http://www.w3.org/2001/XMLSchema-instance\" xsi:nil=\"true\"",
    " xsi:nil=\"true\" xmlns:xsi=\"http://www.w3.org/2001/XMLSchema-instance\"",
    " xmlns:n=\"http://www.w3.org/2001/XMLSchema-instance\" n:nil=\"1\"",
    " xmlns:xsi=\"http://www.w3.org/2001/XMLSchema-instance\" xsi:nil=\"false\"",
    " xsi:nil=\"true\"",
    " nil=\"true\"",
    " a=\"1\"",
    " a=\"1\" a=\"2\"",
    " zz=\"&unknown;\"",
    " zz='&lt;'",
    " xmlns=\"u\"",
    " a=1",
    " a",
    " xmlns:xsi=\"http://www.w3.org/2001/XMLSchema-instance\"",
    // truncated / value-less forms at the very end of the tag
    " xsi:nil",
    " p:nil",
    " xsi:nil=",
    " xsi:nil=\"",
    " xsi:nil=\"true",
    " xsi:ni",
    " xsi:",
    " :nil",
    " xmlns:xsi",
    " xmlns:xsi=",
    " xmlns:",
    // declarations the namespace rules forbid (the reserved prefixes / names)
    " xmlns:xml=\"urn:other\"",
    " xmlns:xmlns=\"u\"",
    " xmlns:p=\"http://www.w3.org/XML/1998/namespace\"",
    " xmlns:p=\"http://www.w3.org/2000/xmlns/\"",
    " xmlns",
    " a=\"1\" xsi:nil",
    " a=\"\r\"",
    " a='x\r'",
    " a=\"x y\r\"",
    " a=\"\t\"",
    " a=\"\n\"",
    " a=\"&#13;\"",
];

#[derive(Clone, Debug, Serialize, Deserialize, PartialEq)]
pub struct Case {
    pub target: Target,
    pub input: String,
    pub via_reader: bool,
}

/// a generated target type (script of deserializer hints, see dynde.rs) on a generated input
#[derive(Clone, Debug, Serialize, Deserialize, PartialEq)]
pub struct DynCase {
    pub script: crate::dynde::Script,
    pub input: String,
    /// `None` = from_str, `Some(cuts)` = from_reader over a chunked BufRead
    pub cuts: Option<Vec<usize>>,
}

pub fn dyn_budget(c: &DynCase) -> usize {
    (c.input.len() + 16) * (c.script.depth() + 2) * 4
}

/// Signature of known finding F10: the visitor of the script stops reading a map / sequence early
/// and the panic is the `unreachable!` on an End event (release builds) or the debug assertion that
/// compares the name of that End event with the element being read (builds with debug assertions,
/// e.g. the coverage-guided target): `src/de/map.rs`, `debug_assert_eq!(self.start.name(), e.name())`.
pub fn is_f10_panic(msg: &str, script: &crate::dynde::Script) -> bool {
    script.has_early_stop() && (msg.contains("entered unreachable code: BytesEnd") || (msg.contains("assertion `left == right` failed") && msg.contains("QName(") && msg.contains("src/de/map.rs")))
}

pub fn check_dyn(c: &DynCase) -> Verdict {
    use crate::dynde;
    dynde::set_budget(dyn_budget(c));
    let res = std::panic::catch_unwind(std::panic::AssertUnwindSafe(|| match &c.cuts {
        None => dynde::from_str(&c.script, &c.input),
        Some(cuts) => {
            let cuts = super::c02::normalise_cuts(c.input.as_bytes(), cuts);
            dynde::from_reader(&c.script, crate::sources::ChunkedBufRead::new(c.input.as_bytes(), cuts))
        }
    }));
    let res = match res {
        Ok(r) => r,
        Err(p) => {
            let msg = crate::engine::panic_message(&p);
            // known finding F10: a visitor that returns before its MapAccess/SeqAccess is exhausted
            // leaves the rest of the element in the stream; the enclosing access then meets an End
            // event where the code says `unreachable!`
            if is_f10_panic(&msg, &c.script) {
                let mut v = Verdict::pass(true);
                v.known.push("F10-undrained-map-access-end-event-unreachable");
                v.classes.push("scripted-visitor-stops-early");
                return v;
            }
            return Verdict::fail(format!("panic: {} | script {:?} | input {:?}", msg, c.script, c.input));
        }
    };
    if dynde::overrun() {
        if c.script.has_zero_length_tuple() {
            // known finding F14: a zero-length tuple reads nothing; as the item type of a top-level
            // sequence, or as a map value under a visitor that accepts repeated keys, nothing is ever consumed
            let mut v = Verdict::pass(true);
            v.known.push(F14);
            v.classes.push("scripted-zero-length-tuple");
            return v;
        }
        return Verdict::fail(format!("the scripted visitor was driven through more than {} steps on an input of {} bytes: deserialization does not terminate | script {:?} | input {:?}", dyn_budget(c), c.input.len(), c.script, c.input));
    }
    let first_ok = {
        let mut r = quick_xml::Reader::from_str(&c.input);
        r.read_event().is_ok()
    };
    let steps = dynde::steps();
    let mut v = Verdict::pass(first_ok && steps >= 3);
    v.classes.push(if res.is_ok() { "scripted-returned-ok" } else { "scripted-returned-err" });
    if steps >= 10 {
        v.classes.push("scripted->=10-visitor-steps");
    }
    if c.script.count(&|h| h == dynde::Hint::Any) > 0 {
        v.classes.push("scripted-uses-deserialize_any");
    }
    if c.script.count(&|h| matches!(h, dynde::Hint::Bytes | dynde::Hint::ByteBuf | dynde::Hint::Identifier | dynde::Hint::I128 | dynde::Hint::U128)) > 0 {
        v.classes.push("scripted-uses-bytes/identifier/128-bit-hints");
    }
    if c.script.count(&|h| h == dynde::Hint::Enum) > 0 {
        v.classes.push("scripted-uses-enum");
    }
    if c.script.has_early_stop() {
        v.classes.push("scripted-visitor-stops-early");
    }
    v
}

/// scripted targets on documents with xsi:nil attributes, namespace (re)declarations, skipped
/// subtrees (c14::nil_template), mutated
/// arbitrary BYTES through from_reader: documents that declare other encodings (honoured when the
/// `encoding` feature is on), byte-order marks of all kinds, bytes that are not UTF-8
#[derive(Clone, Debug, Serialize, Deserialize, PartialEq)]
pub struct BytesCase {
    pub target: Target,
    pub bytes: crate::engine::B,
    /// `Some` = a scripted target (derived from the undamaged document) instead of `target`
    pub script: Option<crate::dynde::Script>,
}

pub fn check_bytes(c: &BytesCase) -> Verdict {
    use crate::dynde;
    let bytes = &c.bytes.0;
    SEQ_BUDGET.with(|b| b.set(bytes.len() + 16));
    SEQ_OVERRUN.with(|f| f.set(false));
    let ok = match &c.script {
        None => {
            let r = try_de_bytes(&c.target, bytes);
            if r.is_err() && SEQ_OVERRUN.with(|f| f.get()) {
                return Verdict::fail(format!("a sequence/map yielded more items than the input has bytes ({}): deserialization does not terminate | target {:?} | input {:?}", bytes.len(), c.target, crate::engine::B::show(bytes)));
            }
            r.is_ok()
        }
        Some(script) => {
            dynde::set_budget((bytes.len() + 16) * (script.depth() + 2) * 4);
            let r = std::panic::catch_unwind(std::panic::AssertUnwindSafe(|| dynde::from_reader(script, std::io::BufReader::with_capacity(5, &bytes[..]))));
            match r {
                Ok(r) => {
                    if dynde::overrun() && script.has_zero_length_tuple() {
                        let mut v = Verdict::pass(true);
                        v.known.push(F14);
                        return v;
                    }
                    if dynde::overrun() {
                        return Verdict::fail(format!("the scripted visitor ran out of its step budget on {} bytes: deserialization does not terminate | script {:?} | input {:?}", bytes.len(), script, crate::engine::B::show(bytes)));
                    }
                    r.is_ok()
                }
                Err(p) => {
                    let msg = crate::engine::panic_message(&p);
                    if is_f10_panic(&msg, script) {
                        let mut v = Verdict::pass(true);
                        v.known.push("F10-undrained-map-access-end-event-unreachable");
                        return v;
                    }
                    return Verdict::fail(format!("panic: {} | script {:?} | input {:?}", msg, script, crate::engine::B::show(bytes)));
                }
            }
        }
    };
    let mut v = Verdict::pass(true).class("bytes-through-from_reader");
    v.classes.push(if ok { "returned-ok" } else { "returned-err" });
    if std::str::from_utf8(bytes).is_err() {
        v.classes.push("input-is-not-utf8");
    }
    if bytes.windows(9).any(|w| w.eq_ignore_ascii_case(b"encoding=")) {
        v.classes.push("declares-an-encoding");
    }
    v
}

pub const ENCODING_LABELS: &[&str] = &["utf-16", "UTF-16LE", "UTF-16BE", "shift_jis", "windows-1251", "iso-2022-jp", "euc-kr", "gb18030", "big5", "x-user-defined", "iso-8859-1", "bogus-encoding", "utf-8", "UTF-8", ""];

pub fn bytes_case_strategy() -> BoxedStrategy<BytesCase> {
    (any_val(), opts_strategy(), prop::collection::vec(edit_strategy(), 0..3), target_strategy(), 0u8..4, any::<u16>(), prop::collection::vec((any::<u16>(), any::<u8>(), 0u8..4), 0..4), prop::option::weighted(0.4, prop::collection::vec(any::<u8>(), 0..40)), prop::collection::vec((any::<u16>(), any::<u16>()), 0..3))
        .prop_map(|(val, opts, edits, other, pick, enc, byte_edits, choices, noise)| {
            let mut doc = val.serialize_with(&opts).unwrap_or_else(|_| "<r/>".to_string());
            let target = if pick == 0 { other } else { Target::Fam(val.ty()) };
            if !matches!(target, Target::Fam(_)) && enc % 4 != 0 {
                doc = EXTRA_DOCS[scale(enc, EXTRA_DOCS.len())].to_string();
            }
            // blank-led text, comments, CDATA between tokens: merged and trimmed text paths
            for (at, what) in &noise {
                let toks = crate::refxml::lex(doc.as_bytes());
                if toks.len() < 2 {
                    break;
                }
                let k = 1 + scale(*at, toks.len() - 1);
                let pos = toks.get(k).map_or(doc.len(), |l| l.start);
                if doc.is_char_boundary(pos) {
                    doc.insert_str(pos, super::c14::NOISE[scale(*what, super::c14::NOISE.len())]);
                }
            }
            let script = choices.map(|ch| crate::dynde::script_from_doc(&doc, &ch));
            let doc = apply_edits(&doc, &edits);
            let label = ENCODING_LABELS[scale(enc, ENCODING_LABELS.len())];
            let mut bytes: Vec<u8> = if label.is_empty() { vec![] } else { format!("<?xml version=\"1.0\" encoding=\"{}\"?>", label).into_bytes() };
            bytes.extend_from_slice(doc.as_bytes());
            for (at, b, kind) in &byte_edits {
                let k = scale(*at, bytes.len() + 1);
                match kind {
                    0 => bytes.insert(k, *b | 0x80),
                    1 if k < bytes.len() => bytes[k] = *b,
                    2 => {
                        // a byte-order mark / signature at the front
                        let sig: &[u8] = [&[0xEFu8, 0xBB, 0xBF][..], &[0xFE, 0xFF], &[0xFF, 0xFE], &[0x3C, 0x00, 0x3F, 0x00], &[0x00, 0x3C, 0x00, 0x3F]][(*b % 5) as usize];
                        let mut v = sig.to_vec();
                        v.extend_from_slice(&bytes);
                        bytes = v;
                    }
                    _ if k < bytes.len() => {
                        bytes.remove(k);
                    }
                    _ => {}
                }
            }
            BytesCase { target, bytes: crate::engine::B(bytes), script }
        })
        .boxed()
}

pub fn dyn_nil_strategy() -> BoxedStrategy<DynCase> {
    (prop::collection::vec((0u8..2, any::<u16>(), any::<u16>(), any::<u16>()), 1..6), any::<u16>(), prop::collection::vec(any::<u8>(), 0..48), prop::collection::vec(edit_strategy(), 0..3), prop::option::of(prop::collection::vec(0usize..300, 0..6)))
        .prop_map(|(items, rootsel, choices, edits, cuts)| {
            let doc = super::c14::nil_template(&items, rootsel);
            let script = crate::dynde::script_from_doc(&doc, &choices);
            DynCase { script, input: apply_edits(&doc, &edits), cuts }
        })
        .boxed()
}

pub fn dyn_case_strategy(soup: bool) -> BoxedStrategy<DynCase> {
    let cuts = prop_oneof![2 => Just(None), 1 => Just(Some(vec![])), 1 => (1usize..8).prop_map(|k| Some((1..200).map(|i| i * k).collect::<Vec<usize>>())), 1 => prop::collection::vec(0usize..300, 0..8).prop_map(Some)];
    if soup {
        (prop::collection::vec(any::<u16>(), 0..14), prop::collection::vec(any::<u8>(), 0..40), any::<u16>(), cuts)
            .prop_map(|(ws, choices, base, cuts)| {
                let input = ws.iter().map(|w| VOCAB[scale(*w, VOCAB.len())]).collect::<Vec<_>>().concat();
                // the script is derived from a valid base document, the input is soup
                let script = crate::dynde::script_from_doc(EXTRA_DOCS[scale(base, EXTRA_DOCS.len())], &choices);
                DynCase { script, input, cuts }
            })
            .boxed()
    } else {
        (any_val(), opts_strategy(), prop::collection::vec(any::<u8>(), 0..64), prop::collection::vec(edit_strategy(), 0..4), any::<u16>(), cuts)
            .prop_map(|(val, opts, choices, edits, extra, cuts)| {
                let mut doc = val.serialize_with(&opts).unwrap_or_else(|_| "<r/>".to_string());
                if extra % 8 == 0 {
                    doc = EXTRA_DOCS[scale(extra, EXTRA_DOCS.len())].to_string();
                }
                let script = crate::dynde::script_from_doc(&doc, &choices);
                DynCase { script, input: apply_edits(&doc, &edits), cuts }
            })
            .boxed()
    }
}

pub fn info() -> PropInfo {
    PropInfo {
        id: "C07",
        run,
        replay,
        rule: "cases = (target type, input text, entry point from_str or from_reader over a 3-byte BufReader). Targets: the 20 family types plus tuples, Vec of tuples, Option<struct>, (), String, HashMap, a struct of IgnoredAny, an enum with #[serde(other)] and $text, Vec<String>, bool, f64, char, Vec<enum>, a struct of Options incl. $text, lists of units, structs with a single `$value` field whose enum has a `$text` newtype variant with a list / unit-enum / tuple-struct payload. Inputs: valid documents (serialized generated values) after token-level mutation (insert/delete/duplicate/splice/replace of start tags, end tags, text, CDATA, comments, DOCTYPE incl. internal subsets, PIs, declarations, valid/unknown/malformed references, xsi:nil attributes, duplicate and malformed attributes), token soup over the same vocabulary, and every truncation of valid documents at every byte. Oracle: the call returns Ok or Err (catch_unwind); sequence/map targets use a counting visitor and a sequence that yields more items than the input has bytes is reported as non-termination; a watchdog maps other hangs to exit 2. Non-trivial = the input was mutated/truncated/soup and the event reader accepts its first event (it is not rejected at once).",
        assumptions: &["a stack overflow on pathologically deep input would abort the process (reported as exit != 0/1 by the runner, not as a violation); generated nesting stays below 64"],
        level: "exploration",
        variants: &["full", "min"],
    }
}

pub fn try_de(t: &Target, xml: &str, via_reader: bool) -> Result<(), String> {
    try_de_impl(t, xml, xml.as_bytes(), via_reader)
}

/// from_reader over arbitrary bytes (not necessarily UTF-8, any declared encoding)
pub fn try_de_bytes(t: &Target, bytes: &[u8]) -> Result<(), String> {
    try_de_impl(t, "", bytes, true)
}

fn try_de_impl(t: &Target, xml: &str, bytes: &[u8], via_reader: bool) -> Result<(), String> {
    macro_rules! go {
        ($ty:ty) => {
            if via_reader {
                quick_xml::de::from_reader::<_, $ty>(std::io::BufReader::with_capacity(3, bytes)).map(|_| ()).map_err(|e| e.to_string())
            } else {
                quick_xml::de::from_str::<$ty>(xml).map(|_| ()).map_err(|e| e.to_string())
            }
        };
    }
    match t {
        Target::Fam(ty) => {
            if via_reader {
                ty.from_reader(std::io::BufReader::with_capacity(3, bytes)).map(|_| ()).map_err(|e| e.to_string())
            } else {
                ty.from_str(xml).map(|_| ()).map_err(|e| e.to_string())
            }
        }
        Target::TupleStrInner => go!((String, Inner)),
        Target::VecTupleInner => go!(Vec<(u8, Inner)>),
        Target::OptInner => go!(Option<Inner>),
        Target::Unit => go!(()),
        Target::Str => go!(String),
        Target::HashMapStr => go!(HashMap<String, String>),
        Target::Ignored => go!(IgnoredHolder),
        Target::OtherEnum => go!(OtherEnum),
        Target::VecString => go!(Vec<String>),
        Target::Bool => go!(bool),
        Target::F64 => go!(f64),
        Target::Char => go!(char),
        Target::VecChoice => go!(Vec<Choice>),
        Target::OptHolder => go!(OptHolder),
        Target::UnitVec => go!(UnitVec),
        Target::VecOptString => go!(Bounded<Option<String>>),
        Target::VecOptInner => go!(Bounded<Option<Inner>>),
        Target::VecOptU8 => go!(Bounded<Option<u8>>),
        Target::VecUnit => go!(Bounded<()>),
        Target::VecVecString => go!(Bounded<Bounded<String>>),
        Target::BoundedMap => go!(BoundedMap),
        Target::TupleOpts => go!((Option<String>, Option<Inner>, Option<()>)),
        Target::ValueOptStr => go!(ValueOptStr),
        Target::ValueOptChoice => go!(ValueOptChoice),
        Target::ValueOptInner => go!(ValueOptInner),
        Target::NestedOpts => go!(NestedOpts),
        Target::ValueListPayload => go!(ValueListPayload),
        Target::ValueUnitPayload => go!(ValueUnitPayload),
        Target::ValueTuplePayload => go!(ValueTuplePayload),
    }
}

/// like `try_de`, but returns the Debug rendering of the value (for differential use by C14)
pub fn try_de_debug(t: &Target, xml: &str, via: Option<Vec<usize>>) -> Result<String, String> {
    macro_rules! go {
        ($ty:ty) => {
            match &via {
                Some(cuts) => quick_xml::de::from_reader::<_, $ty>(crate::sources::ChunkedBufRead::new(xml.as_bytes(), cuts.clone())).map(|v| format!("{:?}", v)).map_err(|e| e.to_string()),
                None => quick_xml::de::from_str::<$ty>(xml).map(|v| format!("{:?}", v)).map_err(|e| e.to_string()),
            }
        };
    }
    SEQ_BUDGET.with(|b| b.set(xml.len() + 16));
    match t {
        Target::Fam(ty) => match &via {
            Some(cuts) => ty.from_reader(crate::sources::ChunkedBufRead::new(xml.as_bytes(), cuts.clone())).map(|v| format!("{:?}", v)).map_err(|e| e.to_string()),
            None => ty.from_str(xml).map(|v| format!("{:?}", v)).map_err(|e| e.to_string()),
        },
        Target::TupleStrInner => go!((String, Inner)),
        Target::VecTupleInner => go!(Vec<(u8, Inner)>),
        Target::OptInner => go!(Option<Inner>),
        Target::Unit => go!(()),
        Target::Str => go!(String),
        // HashMap's Debug order is not deterministic: compare a sorted rendering
        Target::HashMapStr => match &via {
            Some(cuts) => quick_xml::de::from_reader::<_, std::collections::BTreeMap<String, String>>(crate::sources::ChunkedBufRead::new(xml.as_bytes(), cuts.clone())).map(|v| format!("{:?}", v)).map_err(|e| e.to_string()),
            None => quick_xml::de::from_str::<std::collections::BTreeMap<String, String>>(xml).map(|v| format!("{:?}", v)).map_err(|e| e.to_string()),
        },
        Target::Ignored => go!(IgnoredHolder),
        Target::OtherEnum => go!(OtherEnum),
        Target::VecString => go!(Vec<String>),
        Target::Bool => go!(bool),
        Target::F64 => go!(f64),
        Target::Char => go!(char),
        Target::VecChoice => go!(Vec<Choice>),
        Target::OptHolder => go!(OptHolder),
        Target::UnitVec => go!(UnitVec),
        Target::VecOptString => go!(Bounded<Option<String>>),
        Target::VecOptInner => go!(Bounded<Option<Inner>>),
        Target::VecOptU8 => go!(Bounded<Option<u8>>),
        Target::VecUnit => go!(Bounded<()>),
        Target::VecVecString => go!(Bounded<Bounded<String>>),
        Target::BoundedMap => go!(BoundedMap),
        Target::TupleOpts => go!((Option<String>, Option<Inner>, Option<()>)),
        Target::ValueOptStr => go!(ValueOptStr),
        Target::ValueOptChoice => go!(ValueOptChoice),
        Target::ValueOptInner => go!(ValueOptInner),
        Target::NestedOpts => go!(NestedOpts),
        Target::ValueListPayload => go!(ValueListPayload),
        Target::ValueUnitPayload => go!(ValueUnitPayload),
        Target::ValueTuplePayload => go!(ValueTuplePayload),
    }
}

pub fn check(c: &Case) -> Verdict {
    // the call itself runs under the engine's catch_unwind
    SEQ_BUDGET.with(|b| b.set(c.input.len() + 16));
    SEQ_OVERRUN.with(|f| f.set(false));
    let res = try_de(&c.target, &c.input, c.via_reader);
    if res.is_err() {
        if SEQ_OVERRUN.with(|f| f.get()) {
            return Verdict::fail(format!("a sequence/map yielded more items than the input has bytes ({}): deserialization does not terminate | target {:?} | input {:?}", c.input.len(), c.target, c.input));
        }
    }
    let first_ok = {
        let mut r = quick_xml::Reader::from_str(&c.input);
        r.read_event().is_ok()
    };
    let mut v = Verdict::pass(first_ok);
    v.classes.push(if res.is_ok() { "returned-ok" } else { "returned-err" });
    if c.input.contains("<!DOCTYPE") {
        v.classes.push("has-doctype");
    }
    if c.input.contains("nil=") {
        v.classes.push("has-nil");
    }
    if c.input.contains("<![CDATA[") {
        v.classes.push("has-cdata");
    }
    v
}

pub const VOCAB: &[&str] = &[
    "<a>", "</a>", "<b>", "</b>", "<c>", "<d>", "</d>", "<e>", "<item>", "</item>", "<item a=\"1\">", "<v>", "</v>", "<inner a=\"x\">", "</inner>", "<m>", "</m>", "<t>", "</t>", "<child v=\"1\">", "</child>", "<child v=\"2\"/>", "<Unit/>", "<Newtype>", "</Newtype>",
    "<Struct y=\"1\">", "</Struct>", "<x>", "</x>", "<list a=\"\">", "</list>", "<opt a=\"o\">", "</opt>", "<tail>", "</tail>", "<n>", "</n>", "<s>", "</s>", "<s/>", "<A/>", "<B/>", "<c-c/>", "<root>", "</root>", "<nt a=\"\">", "<np>", "<u/>", "<us/>", "<after>", "<g>",
    "<h>", "<f>", "<Num>", "<Nested a=\"\">", "<S>", "<C y=\"true\">", "<N a=\"\">", "<i8_>", "<f64_>", "<k>", "</k>",
    "t", " ", "1", "true", "false", "Red", "dark-blue", "x y", "-1", "1e400", "256", "\n  ", "\u{e9}",
    "<![CDATA[c]]>", "<![CDATA[]]>", "<![CDATA[ ]]>", "<![CDATA[<a>]]>", "<!--c-->", "<!---->", "<!DOCTYPE x>", "<!DOCTYPE x [<!ENTITY e \"v\">]>", "<!DOCTYPE x [<!ENTITY e '<a>'>]>", "<!DOCTYPE>", "<!doctype y>", "<?pi?>", "<?pi d?>", "<?xml version=\"1.0\"?>",
    "<?xml version=\"1.0\" encoding=\"utf-8\"?>", "<?xml version=\"1.0\" encoding=\"utf-16\"?>", "<?xml version='1.0' encoding='windows-1251'?>", "<?xml version='1.0' encoding='shift_jis'?>", "&amp;", "&lt;", "&#65;", "&#x20;", "&e;", "&unknown;", "&#0;", "&", "&;", "&#;",
    "<a xsi:nil=\"true\">", "<opt xsi:nil=\"true\" xmlns:xsi=\"http://www.w3.org/2001/XMLSchema-instance\">", "<a xsi:nil=\"false\"/>", "<a nil=\"true\">", "<inner xsi:nil=\"1\" a=\"\">", "<item xsi:nil='true'/>", "<root xsi:nil=\"true\">",
    "<a k=\"1\" k=\"2\">", "<a k=1>", "<a k>", "<a k=\"1>", "<a =1>", "<a a=\"1\" a=\"2\"/>", "<a k=\"&unknown;\">", "<a k=\"&lt;\" j='&#65;'>", "<inner a=\"1\" a=\"2\">", "<a xmlns=\"u\">", "<p:a xmlns:p=\"u\">", "</p:a>",
    "</>", "<>", "</zzz>", "<", ">", "/>", "<a", "</a", "<!", "<!-", "<![", "<![CDATA[", "]]>", "-->", "?>", "\u{feff}",
    "\u{ff21}", "\u{fec1}", "<x xmlns:xml='u'/>", "<b xmlns:xmlns='u'>", "<a xmlns:q='http://www.w3.org/XML/1998/namespace'/>", "<x:nil>", "</x:nil>", "<xsi:nil/>", "<a xsi:nil>", "<item p:nil/>", "<a xsi:nil=>", "<nil>", "\r", "x\r", "<a k=\"\r\">", "<a k='v\r'>", "<inner a=\"x\r\n\">",
];

pub fn tokens_of(doc: &str) -> Vec<String> {
    let b = doc.as_bytes();
    refxml::lex(b).into_iter().map(|l| String::from_utf8_lossy(&b[l.start..l.end]).into_owned()).collect()
}

#[derive(Clone, Debug)]
pub struct Edit {
    pub kind: u8,
    pub pos: u16,
    pub pos2: u16,
    pub vocab: u16,
}

pub fn apply_edits(doc: &str, edits: &[Edit]) -> String {
    let mut toks = tokens_of(doc);
    for e in edits {
        let n = toks.len();
        let at = scale(e.pos, n + 1);
        let word = VOCAB[scale(e.vocab, VOCAB.len())].to_string();
        match e.kind % 8 {
            6 | 7 => {
                // add attributes to an existing start/empty tag (xsi:nil, duplicates, malformed)
                let tags: Vec<usize> = (0..n).filter(|k| toks[*k].starts_with('<') && toks[*k].ends_with('>') && !toks[*k].starts_with("</") && !toks[*k].starts_with("<!") && !toks[*k].starts_with("<?")).collect();
                if let Some(&k) = tags.get(scale(e.pos, tags.len().max(1)).min(tags.len().saturating_sub(1))) {
                    let snippet = ATTR_SNIPPETS[scale(e.vocab, ATTR_SNIPPETS.len())];
                    let t = toks[k].clone();
                    let cut = if t.ends_with("/>") { t.len() - 2 } else { t.len() - 1 };
                    toks[k] = format!("{}{}{}", &t[..cut], snippet, &t[cut..]);
                }
            }
            0 => toks.insert(at, word),
            1 if n > 0 => {
                toks.remove(at.min(n - 1));
            }
            2 if n > 0 => {
                let t = toks[at.min(n - 1)].clone();
                toks.insert(at, t);
            }
            3 if n > 0 => {
                // splice: copy a range somewhere else
                let a = at.min(n - 1);
                let len = 1 + scale(e.pos2, 4).min(n - 1 - a);
                let piece: Vec<String> = toks[a..a + len].to_vec();
                let to = scale(e.pos2, n + 1);
                for (k, p) in piece.into_iter().enumerate() {
                    toks.insert((to + k).min(toks.len()), p);
                }
            }
            4 if n > 0 => toks[at.min(n - 1)] = word,
            5 if n >= 2 => {
                let b = scale(e.pos2, n);
                toks.swap(at.min(n - 1), b);
            }
            _ => toks.insert(at.min(toks.len()), word),
        }
    }
    toks.concat()
}

pub fn target_strategy() -> impl Strategy<Value = Target> {
    prop_oneof![3 => prop::sample::select(ALL_TYPES.to_vec()).prop_map(Target::Fam), 2 => prop::sample::select(ALL_EXTRA.to_vec())]
}

pub fn edit_strategy() -> impl Strategy<Value = Edit> {
    (0u8..8, any::<u16>(), any::<u16>(), any::<u16>()).prop_map(|(kind, pos, pos2, vocab)| Edit { kind, pos, pos2, vocab })
}

fn run(ctx: &Ctx) {
    ctx.run_regress::<Case, _>(check);
    ctx.run_regress::<DynCase, _>(check_dyn);
    ctx.run_regress::<BytesCase, _>(check_bytes);
    // (a) mutated valid documents
    let mutated = || {
        Box::new((any_val(), opts_strategy(), prop::collection::vec(edit_strategy(), 1..5), target_strategy(), 0u8..4, any::<bool>(), any::<u16>()).prop_map(|(val, opts, edits, other, pick, via_reader, extra)| {
            let mut doc = val.serialize_with(&opts).unwrap_or_else(|_| "<r/>".to_string());
            let target = if pick == 0 { other } else { Target::Fam(val.ty()) };
            if !matches!(target, Target::Fam(_)) && extra % 4 != 0 {
                doc = EXTRA_DOCS[scale(extra, EXTRA_DOCS.len())].to_string();
            }
            Case { target, input: apply_edits(&doc, &edits), via_reader }
        }))
    };
    ctx.run_proptest_with("mutated-valid-documents", ctx.tier.pick(2_000_000, 16_000_000), mutated, check);
    // (b) token soup
    let soup = || Box::new((prop::collection::vec(any::<u16>(), 0..14), target_strategy(), any::<bool>()).prop_map(|(ws, target, via_reader)| Case { target, input: ws.iter().map(|w| VOCAB[scale(*w, VOCAB.len())]).collect::<Vec<_>>().concat(), via_reader }));
    ctx.run_proptest_with("token-soup", ctx.tier.pick(1_000_000, 8_000_000), soup, check);
    // (c) every truncation of valid documents, and every single-token insertion of the
    //     declaration-like vocabulary at every token boundary
    let per_type = ctx.tier.pick(40usize, 600);
    let mut docs: Vec<(Ty, String)> = vec![];
    for (k, t) in ALL_TYPES.iter().enumerate() {
        for v in sample_strategy(&val_of(*t), ctx.seed ^ (0x0700 + k as u64), per_type) {
            if let Ok(d) = v.serialize_with(&SerOpts::plain()) {
                if d.len() <= 400 {
                    docs.push((*t, d));
                }
            }
        }
    }
    ctx.run_groups(
        "truncated-at-every-byte",
        docs.len() as u64,
        true,
        |i| {
            let (t, d) = &docs[i as usize];
            (0..d.len()).filter(|k| d.is_char_boundary(*k)).map(|k| Case { target: Target::Fam(*t), input: d[..k].to_string(), via_reader: k % 2 == 1 }).collect()
        },
        check,
    );
    // every attribute snippet on every tag of the extra base documents, for every extra target
    ctx.run_groups(
        "extra-docs-x-every-attribute-snippet-x-every-target",
        EXTRA_DOCS.len() as u64,
        true,
        |i| {
            let toks = tokens_of(EXTRA_DOCS[i as usize]);
            let mut out = vec![];
            for (k, t) in toks.iter().enumerate() {
                if !(t.starts_with('<') && !t.starts_with("</") && !t.starts_with("<!")) {
                    continue;
                }
                for sn in ATTR_SNIPPETS {
                    let mut v = toks.clone();
                    let cut = if t.ends_with("/>") { t.len() - 2 } else { t.len() - 1 };
                    v[k] = format!("{}{}{}", &t[..cut], sn, &t[cut..]);
                    let doc = v.concat();
                    for target in ALL_EXTRA {
                        out.push(Case { target: target.clone(), input: doc.clone(), via_reader: false });
                    }
                }
            }
            out
        },
        check,
    );
    // generated target TYPES: scripts of deserializer hints derived from the document (so that the
    // script and the document agree deeply), driven through a visitor that accepts everything
    ctx.run_proptest_with("scripted-targets-x-mutated-documents", ctx.tier.pick(1_500_000, 12_000_000), || Box::new(dyn_case_strategy(false)), check_dyn);
    ctx.run_proptest_with("scripted-targets-x-token-soup", ctx.tier.pick(500_000, 4_000_000), || Box::new(dyn_case_strategy(true)), check_dyn);
    ctx.run_proptest_with("scripted-targets-x-nil-documents", ctx.tier.pick(400_000, 3_000_000), || Box::new(dyn_nil_strategy()), check_dyn);
    ctx.run_proptest_with("bytes-with-declared-encodings-through-from_reader", ctx.tier.pick(1_000_000, 8_000_000), || Box::new(bytes_case_strategy()), check_bytes);
    let special: Vec<&str> = VOCAB.iter().copied().filter(|w| w.starts_with("<!") || w.starts_with("<?") || w.starts_with('&') || w.contains("nil") || *w == "</>" || *w == "<>" || w.starts_with("<![")).collect();
    ctx.run_groups(
        "one-special-token-at-every-boundary",
        docs.len() as u64,
        true,
        |i| {
            let (t, d) = &docs[i as usize];
            let toks = tokens_of(d);
            let mut out = vec![];
            for at in 0..=toks.len() {
                for w in &special {
                    let mut v = toks.clone();
                    v.insert(at, w.to_string());
                    out.push(Case { target: Target::Fam(*t), input: v.concat(), via_reader: false });
                }
            }
            out
        },
        check,
    );
}

fn replay(_stage: &str, case: &Value) -> Result<Verdict, String> {
    if case.get("bytes").is_some() {
        let c: BytesCase = serde_json::from_value(case.clone()).map_err(|e| e.to_string())?;
        return Ok(check_bytes(&c));
    }
    if case.get("script").is_some() {
        let c: DynCase = serde_json::from_value(case.clone()).map_err(|e| e.to_string())?;
        return Ok(check_dyn(&c));
    }
    let c: Case = serde_json::from_value(case.clone()).map_err(|e| e.to_string())?;
    Ok(check(&c))
}
