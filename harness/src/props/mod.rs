//! One module per property: generator, oracle, classifier.

use crate::engine::{Ctx, Verdict};
use serde_json::Value;

pub mod c01;
pub mod c02;
pub mod c03;
pub mod c04;
pub mod c05;
pub mod c06;
pub mod c07;
pub mod c08;
pub mod c09;
pub mod c10;
pub mod c11;
pub mod c12;
pub mod c13;
pub mod c14;
pub mod c15;
pub mod c16;
pub mod c17;
pub mod c18;
pub mod c19;
pub mod c19_serde;
pub mod c20;

pub struct PropInfo {
    pub id: &'static str,
    /// run the stages of this property
    pub run: fn(&Ctx),
    /// re-run one stored case through the same oracle
    pub replay: fn(stage: &str, case: &Value) -> Result<Verdict, String>,
    pub rule: &'static str,
    pub assumptions: &'static [&'static str],
    pub level: &'static str,
    /// feature sets on which the property is checked
    pub variants: &'static [&'static str],
}

pub fn all() -> Vec<PropInfo> {
    vec![c01::info(), c02::info(), c03::info(), c04::info(), c05::info(), c06::info(), c07::info(), c08::info(), c09::info(), c10::info(), c11::info(), c12::info(), c13::info(), c14::info(), c15::info(), c16::info(), c17::info(), c18::info(), c19::info(), c20::info()]
}

pub fn find(id: &str) -> Option<PropInfo> {
    all().into_iter().find(|p| p.id == id)
}
