//! C01 — reader events match the document's lexical structure.
//!
//! Oracle: `refxml` (reference tokenizer) + `cfgmodel` (documented effect of the switches)
//! predict every record the borrowing reader returns.

use super::PropInfo;
use crate::cfgmodel;
use crate::engine::{Ctx, SplitMix64, Verdict, B};
use crate::gen;
use crate::rec::*;
use crate::refxml::{self, Tok};
use proptest::prelude::*;
use serde::{Deserialize, Serialize};
use serde_json::Value;

#[derive(Clone, Debug, Serialize, Deserialize, PartialEq)]
pub struct Case {
    pub input: B,
    pub cfg: u8,
}

pub fn info() -> PropInfo {
    PropInfo {
        id: "C01",
        run,
        replay,
        rule: "cases = (input bytes, reader configuration). Enumerated: every string up to length N over the 13 markup bytes, every sequence of up to K tokens over a 27-token alphabet (incl. BOM); generated: proptest fragment soup, seeded mutations of the repository corpus; the corpus itself under all 128 configurations. A case is non-trivial when the input contains '<' and the reference token stream has at least one non-text token; distinct = distinct (input, configuration) pairs (enumerations are distinct by construction, generated cases are de-duplicated by hash). Two further enumerations vary SIZE and OFFSET: fourteen construct kinds (text, long name, quoted value with '>', many attributes, blanks inside tags, comment / CDATA / PI bodies with near-terminators, DOCTYPE with nested brackets, blank runs around text, reference runs, declaration, deep nesting) with an inner length 0..=70 placed after a prefix of 0..=130 bytes, and large inputs whose variable part is 255..70 001 bytes long (block-wise scanners, buffer growth, positions beyond 255 / 65 535, default BufReader capacity).",
        assumptions: &[
            "refxml/cfgmodel are an independent reading of the documented lexical grammar; DOCTYPE bodies containing quotes or `--` are checked for totality only (excluded: ambiguous DOCTYPE)",
            "inputs starting with a UTF-16 BOM/signature are outside the domain (documented unsupported)",
            "position after a fatal syntax error is not compared (only the error position)",
        ],
        level: "exploration",
        variants: &["full", "min"],
    }
}

pub fn classify(toks: &[refxml::Lexed], v: &mut Verdict) {
    let mut kinds = [false; 10];
    for l in toks {
        match &l.tok {
            Tok::Text(_) => {}
            Tok::Start(c, n) => {
                kinds[0] = true;
                if c[*n..].contains(&b'>') {
                    v.classes.push("gt-inside-quoted-attribute");
                }
            }
            Tok::Empty(c, n) => {
                kinds[1] = true;
                if c[*n..].contains(&b'>') {
                    v.classes.push("gt-inside-quoted-attribute");
                }
            }
            Tok::End(_) => kinds[2] = true,
            Tok::Comment(c) => {
                kinds[3] = true;
                if c.contains(&b'>') || c.windows(2).any(|w| w == b"--") {
                    v.classes.push("terminator-lookalike-in-comment");
                }
            }
            Tok::CData(c) => {
                kinds[4] = true;
                if c.contains(&b'>') || c.windows(2).any(|w| w == b"]]") {
                    v.classes.push("terminator-lookalike-in-cdata");
                }
            }
            Tok::Decl(_) => kinds[5] = true,
            Tok::PI(c, _) => {
                kinds[6] = true;
                if c.contains(&b'?') || c.contains(&b'>') {
                    v.classes.push("terminator-lookalike-in-pi");
                }
            }
            Tok::DocType(c) => {
                kinds[7] = true;
                if c.contains(&b'<') {
                    v.classes.push("nested-markup-in-doctype");
                }
            }
            Tok::ErrMissingDoctypeName => kinds[8] = true,
            Tok::ErrSyntax(k) => {
                kinds[9] = true;
                v.classes.push(match *k {
                    "UnclosedTag" => "truncated-tag",
                    "UnclosedComment" => "truncated-comment",
                    "UnclosedCData" => "truncated-cdata",
                    "UnclosedDoctype" => "truncated-doctype",
                    "UnclosedPIOrXmlDecl" => "truncated-pi",
                    _ => "invalid-bang",
                });
            }
        }
    }
    const NAMES: [&str; 10] = ["has-start", "has-empty", "has-end", "has-comment", "has-cdata", "has-decl", "has-pi", "has-doctype", "has-missing-doctype-name", "has-syntax-error"];
    for (i, k) in kinds.iter().enumerate() {
        if *k {
            v.classes.push(NAMES[i]);
        }
    }
}

pub fn check(c: &Case) -> Verdict {
    let data = &c.input.0;
    // (a build without `encoding` knows no UTF-16: there the two bytes are ordinary text)
    if cfg!(feature = "full") && refxml::is_utf16_like(data) {
        let _ = read_slice(data, c.cfg);
        return Verdict::excluded("utf16-signature");
    }
    let toks = refxml::lex(data);
    let recs = read_slice(data, c.cfg);
    if refxml::has_ambiguous_doctype(&toks, data) {
        return Verdict::excluded("ambiguous-doctype");
    }
    let nontrivial = data.contains(&b'<') && toks.iter().any(|l| !matches!(l.tok, Tok::Text(_)));
    let mut v = Verdict::pass(nontrivial);
    classify(&toks, &mut v);
    match cfgmodel::check_static(data, &toks, c.cfg, &recs) {
        Ok((f6, _)) => {
            // the empty-Text anomaly is C16's finding (an option effect), not a lexical one:
            // accepted here, counted as a class
            if f6 > 0 {
                v.classes.push("f6-empty-text-accepted");
            }
        }
        Err(m) => {
            v.fail = Some(format!("{} | cfg={} | reader: {}", m, cfg_show(c.cfg), show_recs(&recs)));
        }
    }
    // a reader cloned after k calls (k a pure function of the input) is a reader in the same state:
    // the run that continues on the clone and the run that continues on the original both equal the
    // uninterrupted run
    if v.fail.is_none() && recs.len() > 1 {
        let k = (data.iter().fold(data.len(), |h, b| h.wrapping_mul(31).wrapping_add(*b as usize)) >> 3) % recs.len();
        let (on_clone, on_original) = crate::rec::read_slice_handover(data, c.cfg, k);
        if let Some(d) = crate::rec::first_diff(&recs, &on_clone) {
            v.fail = Some(format!("reader cloned after {} calls, the clone continues: {} | cfg={} | uninterrupted: {}", k, d, cfg_show(c.cfg), show_recs(&recs)));
        } else if let Some(d) = crate::rec::first_diff(&recs, &on_original) {
            v.fail = Some(format!("reader cloned after {} calls, the original continues after the clone finished: {} | cfg={} | uninterrupted: {}", k, d, cfg_show(c.cfg), show_recs(&recs)));
        }
        if k > 0 {
            v.classes.push("cloned-mid-stream");
        }
    }
    v
}

/// neutral configuration plus three configurations chosen by a seeded rotation
pub fn rotated_cfg(seed: u64, idx: u64, j: u64) -> u8 {
    if j == 0 {
        NEUTRAL
    } else {
        let mut r = SplitMix64::derive(seed, "cfg-rotation", idx.wrapping_mul(4).wrapping_add(j));
        (r.next() & 127) as u8
    }
}

fn run(ctx: &Ctx) {
    ctx.run_regress::<Case, _>(check);
    let seed = ctx.seed;
    // every string of <= 4 bytes under all 128 configurations
    let small = gen::exh_count(13, ctx.tier.pick(4, 5));
    ctx.run_indexed("exh-bytes-small-x-all-configs", small * 128, |i| Some(Case { input: B(gen::exh_bytes(gen::SIGMA1, i / 128)), cfg: (i % 128) as u8 }), check);
    // longer strings: neutral + three rotated configurations
    let n = ctx.tier.pick(6, 7);
    let count = gen::exh_count(13, n);
    ctx.run_indexed("exh-bytes-x-rotated-configs", count * 4, |i| Some(Case { input: B(gen::exh_bytes(gen::SIGMA1, i / 4)), cfg: rotated_cfg(seed, i / 4, i % 4) }), check);
    let n2 = ctx.tier.pick(6, 7);
    let count2 = gen::exh_count(gen::SIGMA2.len() as u64, n2);
    ctx.run_indexed("exh-bytes-alphabet2-x-rotated-configs", count2 * 2, |i| Some(Case { input: B(gen::exh_bytes(gen::SIGMA2, i / 2)), cfg: rotated_cfg(seed, i / 2, i % 2) }), check);
    let n3 = ctx.tier.pick(5, 6);
    let count3 = gen::exh_count(gen::SIGMA3.len() as u64, n3);
    ctx.run_indexed("exh-bytes-alphabet3-x-rotated-configs", count3 * 4, |i| Some(Case { input: B(gen::exh_bytes(gen::SIGMA3, i / 4)), cfg: if i % 4 == 0 { TRIM_START | TRIM_END | TRIM_NAMES | ALLOW_UNMATCHED } else { rotated_cfg(seed, i / 4, i % 4) } }), check);
    let k = ctx.tier.pick(4, 5);
    // (quick: 29^4 sequences x 4 configurations; thorough: 29^5 x 2)
    let tcount = gen::exh_count(gen::TOKENS.len() as u64, k);
    let per = ctx.tier.pick(4, 2);
    ctx.run_indexed("exh-tokens-x-rotated-configs", tcount * per, |i| Some(Case { input: B(gen::exh_tokens(gen::TOKENS, i / per)), cfg: rotated_cfg(seed, i / per, i % per) }), check);
    // the corpus under all configurations
    let corpus = gen::corpus();
    ctx.run_indexed("corpus-x-all-configs", corpus.len() as u64 * 128, |i| Some(Case { input: B(corpus[(i / 128) as usize].1.clone()), cfg: (i % 128) as u8 }), check);
    // proptest soup
    let strat = (gen::soup_strategy(14), 0u8..128).prop_map(|(input, cfg)| Case { input: B(input), cfg });
    ctx.run_proptest("soup", ctx.tier.pick(1_000_000, 8_000_000), strat, check);
    // seeded mutations of corpus documents and of soups
    let nm = ctx.tier.pick(1_000_000u64, 8_000_000);
    let small_corpus: Vec<&Vec<u8>> = corpus.iter().map(|c| &c.1).filter(|d| d.len() <= 4096).collect();
    ctx.run_indexed_mode(
        "mutated-corpus",
        nm,
        false,
        |i| {
            let mut r = SplitMix64::derive(seed, "c01-mutate", i);
            let base = if r.chance(1, 2) && !small_corpus.is_empty() { (*r.pick(&small_corpus)).clone() } else { gen::soup_seeded(&mut r, 10) };
            let edits = 1 + r.below(4);
            let input = gen::mutate(&mut r, &base, gen::SIGMA1, edits);
            Some(Case { input: B(input), cfg: (r.next() & 127) as u8 })
        },
        check,
    );
    // offset and length sweep: each construct kind with an inner length 0..=70 placed after a prefix of
    // 0..=130 bytes (block-wise scanners, buffer growth), and large inputs around 256 / 4096 / 8192 /
    // 65 536 bytes (positions beyond u8 / u16, default buffer capacities)
    let (pmax, qmax, vars) = ctx.tier.pick((130u64, 70u64, 2u64), (260, 140, 4));
    ctx.run_indexed("offset-and-length-sweep", gen::sweep_count(pmax, qmax, vars) * 2, |i| Some(Case { input: B(gen::sweep_nth(i / 2, pmax, qmax, vars)), cfg: rotated_cfg(seed, i / 2, i % 2) }), check);
    ctx.run_indexed("large-inputs", gen::big_count() * 4, |i| Some(Case { input: B(gen::big_nth(i / 4)), cfg: rotated_cfg(seed, i / 4, i % 4) }), check);
}

fn replay(_stage: &str, case: &Value) -> Result<Verdict, String> {
    let c: Case = serde_json::from_value(case.clone()).map_err(|e| e.to_string())?;
    Ok(check(&c))
}
