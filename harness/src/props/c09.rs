//! C09 — events built through the API and written are read back identical.

use super::PropInfo;
use crate::engine::{Ctx, Verdict, B};
use crate::evgen::*;
use crate::rec::{apply_cfg, NEUTRAL};
use crate::sources::{block_on, PartialSink};
use proptest::prelude::*;
use quick_xml::events::{BytesCData, BytesPI, BytesText, Event};
use quick_xml::reader::Reader;
use quick_xml::writer::Writer;
use serde::{Deserialize, Serialize};
use serde_json::Value;

#[derive(Clone, Debug, Serialize, Deserialize, PartialEq)]
pub struct Case {
    pub events: Vec<EvSpec>,
    pub sink: (u8, u64),
    /// Some((indent character index, indent size, new_line mask)): the three writers are ALSO run with
    /// indentation and with `ElementWriter::new_line()` calls in front of the attribute groups; they
    /// must not panic and must agree byte for byte
    #[serde(default)]
    pub indent: Option<(u8, u8, u8)>,
}

thread_local! {
    static NL_MASK: std::cell::Cell<u8> = std::cell::Cell::new(0);
}
const INDENT_SIZES: &[usize] = &[0, 1, 2, 4, 9, 33, 65, 130];

pub fn info() -> PropInfo {
    PropInfo {
        id: "C09",
        run,
        replay,
        rule: "cases = histories of builder calls: BytesStart::new + push_attribute/extend_attributes/with_attributes/set_name/clear_attributes written as Start or Empty, BytesEnd::new, BytesText::new, BytesCData::escaped (all pieces), BytesDecl::new, BytesPI::new, comments, DOCTYPE, Writer::create_element(..).with_attribute(s)..write_{text,cdata,pi}_content/write_empty/write_inner_content; payload strings from a markup-heavy generator. Reading the written bytes must give the constructed sequence after coalescing adjacent text events/CDATA pieces and dropping empty text; keys byte-equal, attribute values and text unescape to the original strings, CDATA concatenates to the original, declaration fields read back; the async writer (through a sink that accepts partial writes and returns Pending) produces the same bytes. Non-trivial = at least one payload contains a special character and the history contains an in-place edit or an element-builder call. The synchronous writer is also run through a sink that accepts partial (plain and vectored) writes and answers some calls with ErrorKind::Interrupted: same bytes as into a Vec. Payloads, names and builder-call lists occasionally long (16..300 characters, 20..45 calls). In 40% of the cases the three writers are ALSO run with indentation (space / tab x sizes 0,1,2,4,9,33,65,130) and with ElementWriter::new_line() in front of / between / after the attribute groups and explicit write_indent() / write_indent_async() calls between items: no panic, and sync, partial-sink sync and async writers agree byte for byte (what indentation may insert is C19's subject). A quarter of the cases also write Writer::write_bom() first: same bytes after the mark, same events read back. Nested content goes through write_inner_content on the sync side and write_inner_content_async on the async side. On read-back the other accessors of the same payload (decode_and_unescape_value_with, unescape_with with resolve_xml_entity; without `encoding` also unescape_value / unescape_value_with) must agree.",
        assumptions: &["names are XML-name-like (no blanks, no '>'), comment/PI/DOCTYPE content is free of its own terminator (documented preconditions)", "declarations name UTF-8 (or no encoding): the written bytes are UTF-8"],
        level: "exploration",
        variants: &["full", "min"],
    }
}

fn write_sync<W: std::io::Write>(w: &mut Writer<W>, specs: &[EvSpec]) -> std::io::Result<()> {
    for (idx, s) in specs.iter().enumerate() {
        // bit 3 of the new_line mask: an explicit write_indent() in front of every third item
        if NL_MASK.with(|m| m.get()) & 8 != 0 && idx % 3 == 1 {
            w.write_indent()?;
        }
        match s {
            EvSpec::Element(name, attrs, content) => {
                let nl = NL_MASK.with(|m| m.get());
                let mut ew = w.create_element(name.as_str());
                if nl & 1 != 0 {
                    ew = ew.new_line();
                }
                let mut it = attrs.iter();
                if attrs.len() % 2 == 1 {
                    if let Some((k, v)) = it.next() {
                        ew = ew.with_attribute((k.as_str(), v.as_str()));
                    }
                }
                if nl & 2 != 0 {
                    ew = ew.new_line();
                }
                ew = ew.with_attributes(it.map(|(k, v)| (k.as_str(), v.as_str())));
                if nl & 4 != 0 {
                    ew = ew.new_line();
                }
                match content {
                    Content::Text(t) => {
                        ew.write_text_content(BytesText::new(t))?;
                    }
                    Content::CData(t) => {
                        ew.write_cdata_content(BytesCData::new(t.as_str()))?;
                    }
                    Content::PI(t) => {
                        ew.write_pi_content(BytesPI::new(t.as_str()))?;
                    }
                    Content::Empty => {
                        ew.write_empty()?;
                    }
                    Content::Inner(inner) => {
                        ew.write_inner_content(|w| write_sync(w, inner))?;
                    }
                }
            }
            other => {
                for e in build_events(other) {
                    w.write_event(e)?;
                }
            }
        }
    }
    Ok(())
}

/// the async writer: plain events through write_event_async, element builder through its
/// async methods (write_inner_content_async for nested content)
/// error type for write_inner_content_async (it must be convertible from the library's error)
struct AErr(String);
impl From<quick_xml::Error> for AErr {
    fn from(e: quick_xml::Error) -> Self {
        AErr(e.to_string())
    }
}

fn write_async(w: &mut Writer<PartialSink>, specs: &[EvSpec]) -> Result<(), String> {
    for (idx, s) in specs.iter().enumerate() {
        if NL_MASK.with(|m| m.get()) & 8 != 0 && idx % 3 == 1 {
            block_on(w.write_indent_async()).map_err(|e| e.to_string())?;
        }
        match s {
            EvSpec::Element(name, attrs, content) => {
                let nl = NL_MASK.with(|m| m.get());
                let mk = |w| {
                    let mut ew = Writer::create_element(w, name.as_str());
                    if nl & 1 != 0 {
                        ew = ew.new_line();
                    }
                    let mut it = attrs.iter();
                    if attrs.len() % 2 == 1 {
                        if let Some((k, v)) = it.next() {
                            ew = ew.with_attribute((k.as_str(), v.as_str()));
                        }
                    }
                    if nl & 2 != 0 {
                        ew = ew.new_line();
                    }
                    ew = ew.with_attributes(it.map(|(k, v)| (k.as_str(), v.as_str())));
                    if nl & 4 != 0 {
                        ew = ew.new_line();
                    }
                    ew
                };
                match content {
                    Content::Text(t) => {
                        block_on(mk(w).write_text_content_async(BytesText::new(t))).map_err(|e| e.to_string())?;
                    }
                    Content::CData(t) => {
                        block_on(mk(w).write_cdata_content_async(BytesCData::new(t.as_str()))).map_err(|e| e.to_string())?;
                    }
                    Content::PI(t) => {
                        block_on(mk(w).write_pi_content_async(BytesPI::new(t.as_str()))).map_err(|e| e.to_string())?;
                    }
                    Content::Empty => {
                        block_on(mk(w).write_empty_async()).map_err(|e| e.to_string())?;
                    }
                    Content::Inner(inner) => {
                        // the async twin of write_inner_content; the closure writes the inner items through
                        // this same function (its own block_on calls nest inside the outer one)
                        block_on(mk(w).write_inner_content_async(|w2| async move {
                            write_async(&mut *w2, inner).map_err(AErr)?;
                            Ok::<_, AErr>(w2)
                        }))
                        .map_err(|e| e.0)?;
                    }
                }
            }
            other => {
                for e in build_events(other) {
                    block_on(w.write_event_async(e)).map_err(|e| e.to_string())?;
                }
            }
        }
    }
    Ok(())
}

fn read_back(bytes: &[u8]) -> Result<Vec<Norm>, String> {
    let mut r = Reader::from_reader(bytes);
    apply_cfg(r.config_mut(), NEUTRAL);
    let mut out = vec![];
    let utf8 = |b: &[u8]| String::from_utf8(b.to_vec()).map_err(|_| "non-UTF-8 bytes read back".to_string());
    for _ in 0..2 * bytes.len() + 4 {
        let attrs_of = |s: &quick_xml::events::BytesStart, dec| -> Result<Vec<(String, String)>, String> {
            let mut v = vec![];
            for a in s.attributes().with_checks(false) {
                let a = a.map_err(|e| format!("attribute error {:?} in {:?}", e, s))?;
                let val = a.decode_and_unescape_value(dec).map_err(|e| format!("cannot unescape attribute value {:?}: {:?}", B::show(&a.value), e))?;
                // the other accessors of the same value (a build without `encoding` has the plain ones too)
                let with = a.decode_and_unescape_value_with(dec, quick_xml::escape::resolve_xml_entity).map(|c| c.into_owned()).map_err(|e| format!("{:?}", e));
                if with.as_deref() != Ok(val.as_ref()) {
                    return Err(format!("decode_and_unescape_value_with(resolve_xml_entity) gives {:?}, decode_and_unescape_value {:?} for {:?}", with, val, B::show(&a.value)));
                }
                #[cfg(not(feature = "full"))]
                {
                    let plain = a.unescape_value().map(|c| c.into_owned()).map_err(|e| format!("{:?}", e));
                    let plain_with = a.unescape_value_with(quick_xml::escape::resolve_predefined_entity).map(|c| c.into_owned()).map_err(|e| format!("{:?}", e));
                    if plain.as_deref() != Ok(val.as_ref()) || plain_with.as_deref() != Ok(val.as_ref()) {
                        return Err(format!("unescape_value gives {:?}, unescape_value_with {:?}, decode_and_unescape_value {:?} for {:?}", plain, plain_with, val, B::show(&a.value)));
                    }
                }
                v.push((String::from_utf8(a.key.as_ref().to_vec()).map_err(|_| "non-UTF-8 key".to_string())?, val.into_owned()));
            }
            Ok(v)
        };
        let dec = r.decoder();
        match r.read_event() {
            Ok(Event::Eof) => return Ok(out),
            Ok(Event::Start(s)) => out.push(Norm::Start(utf8(s.name().as_ref())?, attrs_of(&s, dec)?)),
            Ok(Event::Empty(s)) => out.push(Norm::Empty(utf8(s.name().as_ref())?, attrs_of(&s, dec)?)),
            Ok(Event::End(e)) => out.push(Norm::End(utf8(e.name().as_ref())?)),
            Ok(Event::Text(t)) => {
                let u = t.unescape().map_err(|e| format!("cannot unescape text {:?}: {:?}", B::show(&t), e))?.into_owned();
                let w = t.unescape_with(quick_xml::escape::resolve_xml_entity).map(|c| c.into_owned()).map_err(|e| format!("{:?}", e));
                if w.as_deref() != Ok(u.as_str()) {
                    return Err(format!("unescape_with(resolve_xml_entity) gives {:?}, unescape {:?} for {:?}", w, u, B::show(&t)));
                }
                out.push(Norm::Text(u))
            }
            Ok(Event::CData(c)) => out.push(Norm::CData(utf8(&c)?)),
            Ok(Event::Comment(c)) => out.push(Norm::Comment(utf8(&c)?)),
            Ok(Event::PI(p)) => out.push(Norm::PI(utf8(&p)?, utf8(p.target())?)),
            Ok(Event::DocType(d)) => out.push(Norm::DocType(utf8(&d)?)),
            Ok(Event::Decl(d)) => {
                let ver = d.version().map_err(|e| format!("version(): {:?}", e))?;
                let enc = match d.encoding() {
                    None => None,
                    Some(Ok(e)) => Some(utf8(&e)?),
                    Some(Err(e)) => return Err(format!("encoding(): {:?}", e)),
                };
                let sa = match d.standalone() {
                    None => None,
                    Some(Ok(e)) => Some(utf8(&e)?),
                    Some(Err(e)) => return Err(format!("standalone(): {:?}", e)),
                };
                out.push(Norm::Decl(utf8(&ver)?, enc, sa));
            }
            Err(e) => return Err(format!("reader error {:?} at {}", e, r.error_position())),
        }
    }
    Err("no Eof".into())
}

fn count_special(specs: &[EvSpec], special: &mut bool, edits: &mut bool) {
    for s in specs {
        match s {
            EvSpec::Start(_, ops) | EvSpec::Empty(_, ops) => {
                if !ops.is_empty() {
                    *edits = true;
                }
                for op in ops {
                    match op {
                        StartOp::Push(_, v) => *special |= has_special(v),
                        StartOp::Extend(l) | StartOp::With(l) => *special |= l.iter().any(|(_, v)| has_special(v)),
                        _ => {}
                    }
                }
            }
            EvSpec::Text(t) | EvSpec::CData(t) => *special |= has_special(t),
            EvSpec::Element(_, attrs, content) => {
                *edits = true;
                *special |= attrs.iter().any(|(_, v)| has_special(v));
                match content {
                    Content::Text(t) | Content::CData(t) | Content::PI(t) => *special |= has_special(t),
                    Content::Inner(i) => count_special(i, special, edits),
                    Content::Empty => {}
                }
            }
            _ => {}
        }
    }
}

/// every constructed event is the same event after each ownership / copy conversion of its type
fn conversions_hold(specs: &[EvSpec]) -> Result<(), String> {
    for s in specs {
        if let EvSpec::Element(_, _, Content::Inner(inner)) = s {
            conversions_hold(inner)?;
        }
        for e in build_events(s) {
            if let Some(d) = crate::rec::conversion_defect(&e) {
                return Err(format!("constructed from {:?}: {}", s, d));
            }
        }
    }
    Ok(())
}

pub fn check(c: &Case) -> Verdict {
    if let Err(m) = conversions_hold(&c.events) {
        return Verdict::fail(m);
    }
    let mut w = Writer::new(Vec::new());
    if let Err(e) = write_sync(&mut w, &c.events) {
        return Verdict::fail(format!("writer failed: {}", e));
    }
    let bytes = w.into_inner();
    let mut want = vec![];
    norm_of(&c.events, &mut want);
    let want = coalesce(want);
    if bytes.starts_with(&[0xEF, 0xBB, 0xBF]) {
        // a U+FEFF at the very start of the written document is a byte-order mark for the reader
        // (documented); anywhere else it is an ordinary character of the payload
        return Verdict::excluded("document-starts-with-u+feff");
    }
    let got = match read_back(&bytes) {
        Ok(g) => coalesce(g),
        Err(m) => return Verdict::fail(format!("{} | written: {:?}", m, B::show(&bytes))),
    };
    if got != want {
        let k = got.iter().zip(want.iter()).position(|(a, b)| a != b).unwrap_or(got.len().min(want.len()));
        return Verdict::fail(format!("item {}: constructed {:?}, read back {:?} | written: {:?}", k, want.get(k), got.get(k), B::show(&bytes)));
    }
    // Writer::write_bom() in front: the same bytes after the three-byte mark, and the reader gives the
    // same events (the mark is removed, documented)
    let with_bom = c.sink.1 % 4 == 1;
    if with_bom {
        let mut wb = Writer::new(Vec::new());
        if let Err(e) = wb.write_bom() {
            return Verdict::fail(format!("write_bom failed: {}", e));
        }
        if let Err(e) = write_sync(&mut wb, &c.events) {
            return Verdict::fail(format!("writer failed after write_bom: {}", e));
        }
        let bb = wb.into_inner();
        if !(bb.starts_with(&[0xEF, 0xBB, 0xBF]) && bb[3..] == bytes[..]) {
            return Verdict::fail(format!("after write_bom() the writer produced {:?}, without it {:?}", B::show(&bb), B::show(&bytes)));
        }
        match read_back(&bb) {
            Ok(g) if coalesce(g.clone()) == want => {}
            Ok(g) => return Verdict::fail(format!("with a byte-order mark written first the document reads back as {:?}, constructed {:?} | written: {:?}", coalesce(g), want, B::show(&bb))),
            Err(m) => return Verdict::fail(format!("{} | written (with byte-order mark): {:?}", m, B::show(&bb))),
        }
    }
    // the synchronous writer through a sink that accepts partial (plain and vectored) writes and
    // interrupts some calls must produce the same bytes as into a Vec
    let mut pw = Writer::new(crate::sources::PartialSyncSink::new(c.sink.0 as usize, c.sink.1));
    if let Err(e) = write_sync(&mut pw, &c.events) {
        return Verdict::fail(format!("sync writer failed on a sink with partial writes: {}", e));
    }
    let pbytes = pw.into_inner().out;
    if pbytes != bytes {
        return Verdict::fail(format!("sync writer through a sink accepting {} bytes per write produced {:?}, into a Vec {:?}", c.sink.0 & 0x7f, B::show(&pbytes), B::show(&bytes)));
    }
    let mut aw = Writer::new(PartialSink::new(c.sink.0 as usize, c.sink.1));
    if let Err(m) = write_async(&mut aw, &c.events) {
        return Verdict::fail(format!("async writer failed: {}", m));
    }
    let abytes = aw.into_inner().out;
    if abytes != bytes {
        return Verdict::fail(format!("async writer produced {:?}, sync writer {:?}", B::show(&abytes), B::show(&bytes)));
    }
    let mut indented = false;
    if let Some((ch, size, nl)) = c.indent {
        let ch = [b' ', b'\t'][ch as usize % 2];
        let size = INDENT_SIZES[size as usize % INDENT_SIZES.len()];
        let events = &c.events;
        let sink = c.sink;
        let res = std::panic::catch_unwind(move || -> Result<(), String> {
            NL_MASK.with(|m| m.set(nl));
            let mut w = Writer::new_with_indent(Vec::new(), ch, size);
            write_sync(&mut w, events).map_err(|e| format!("indenting writer failed: {}", e))?;
            let bytes = w.into_inner();
            let mut pw = Writer::new_with_indent(crate::sources::PartialSyncSink::new(sink.0 as usize, sink.1), ch, size);
            write_sync(&mut pw, events).map_err(|e| format!("indenting sync writer failed on a sink with partial writes: {}", e))?;
            let pbytes = pw.into_inner().out;
            if pbytes != bytes {
                return Err(format!("indenting sync writer through a partial sink produced {:?}, into a Vec {:?}", B::show(&pbytes), B::show(&bytes)));
            }
            let mut aw = Writer::new_with_indent(PartialSink::new(sink.0 as usize, sink.1), ch, size);
            write_async(&mut aw, events).map_err(|m| format!("indenting async writer failed: {}", m))?;
            let abytes = aw.into_inner().out;
            if abytes != bytes {
                return Err(format!("with indentation ({:?} x {}, new_line mask {}) the async writer produced {:?}, the sync writer {:?}", ch as char, size, nl, B::show(&abytes), B::show(&bytes)));
            }
            Ok(())
        });
        NL_MASK.with(|m| m.set(0));
        match res {
            Ok(Ok(())) => indented = true,
            Ok(Err(m)) => return Verdict::fail(m),
            Err(p) => {
                let msg = p.downcast_ref::<String>().cloned().or_else(|| p.downcast_ref::<&str>().map(|s| s.to_string())).unwrap_or_default();
                return Verdict::fail(format!("panic in an indenting writer ({:?} x {}, new_line mask {}): {}", ch as char, size, nl, msg));
            }
        }
    }
    let (mut special, mut edits) = (false, false);
    count_special(&c.events, &mut special, &mut edits);
    let mut v = Verdict::pass(special && edits);
    if c.events.iter().any(|e| matches!(e, EvSpec::CData(t) if t.contains("]]>"))) {
        v.classes.push("cdata-split");
    }
    if c.events.iter().any(|e| matches!(e, EvSpec::Element(..))) {
        v.classes.push("element-builder");
    }
    if with_bom {
        v.classes.push("also-with-write_bom-in-front");
    }
    if indented {
        v.classes.push("also-with-indentation-sync-vs-async");
    }
    if c.sink.0 & 0x80 != 0 {
        v.classes.push("async-sink-with-partial-vectored-writes");
    }
    if c.events.windows(2).any(|w| matches!((&w[0], &w[1]), (EvSpec::Text(_), EvSpec::Text(_)))) {
        v.classes.push("adjacent-text");
    }
    v
}

fn run(ctx: &Ctx) {
    ctx.run_regress::<Case, _>(check);
    // an end-of-document event may stand anywhere in the sequence (it writes nothing)
    let strat = || Box::new((prop::collection::vec(prop_oneof![24 => spec_strategy(2), 1 => Just(EvSpec::Eof)], 0..12), ((1u8..25, any::<bool>()).prop_map(|(m, v)| m | if v { 0x80 } else { 0 }), any::<u64>()), prop::option::weighted(0.4, (0u8..2, 0u8..8, 0u8..16))).prop_map(|(events, sink, indent)| Case { events, sink, indent }));
    ctx.run_proptest_with("builder-histories", ctx.tier.pick(1_000_000, 10_000_000), strat, check);
}

fn replay(_stage: &str, case: &Value) -> Result<Verdict, String> {
    let c: Case = serde_json::from_value(case.clone()).map_err(|e| e.to_string())?;
    Ok(check(&c))
}
