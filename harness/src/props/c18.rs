//! C18 — source I/O faults are transparent (interrupts) or reported once (errors).
//! Fault enumeration: every refill call of the fault-free run is a fault point.

use super::PropInfo;
use crate::engine::{Ctx, SplitMix64, Verdict, B};
use crate::gen;
use crate::rec::*;
use crate::refxml;
use crate::sources::{block_on, ChunkedAsync, ChunkedBufRead, FaultPlan, FAULT_MARK};
use quick_xml::reader::Reader;
use serde::{Deserialize, Serialize};
use serde_json::Value;
use std::io::ErrorKind;

#[derive(Clone, Debug, Serialize, Deserialize, PartialEq)]
pub struct Case {
    pub input: B,
    pub cfg: u8,
    pub cuts: Vec<usize>,
    pub asynch: bool,
    pub pend: Vec<u8>,
    /// (refill call index, kind, repeat): kinds 0 Interrupted, 1 Other, 2 UnexpectedEof, 3 WouldBlock,
    /// 4 InvalidData, 5 TimedOut
    pub faults: Vec<(usize, u8, u8)>,
    /// bit k set: after the k-th start event (mod 8) skip the element with read_to_end_into*
    #[serde(default)]
    pub skip: u8,
}

pub fn info() -> PropInfo {
    PropInfo {
        id: "C18",
        run,
        replay,
        rule: "cases = (document, configuration, chunking, sync/async source, fault plan). For every document and chunking the fault-free run (read_event_into*, with read_to_end_into* skips after some start events in a third of the groups) is recorded and EVERY refill (fill_buf) call index of that run is used as a fault point, for 'interrupted' repeated 1-3 times and for four other error kinds; plus random multi-interrupt plans. Interrupts: the record sequence (events, errors, positions) must equal the fault-free one. Other kinds: the records before the first I/O error equal the same-length prefix of the fault-free run and that error is Error::Io carrying the injected kind and marker text. Non-trivial = the (first) fault lands strictly inside a markup construct, i.e. after its '<' was consumed and before its end. Two further enumerations vary SIZE and OFFSET: fourteen construct kinds (text, long name, quoted value with '>', many attributes, blanks inside tags, comment / CDATA / PI bodies with near-terminators, DOCTYPE with nested brackets, blank runs around text, reference runs, declaration, deep nesting) with an inner length 0..=70 placed after a prefix of 0..=130 bytes, and large inputs whose variable part is 255..70 001 bytes long (block-wise scanners, buffer growth, positions beyond 255 / 65 535, default BufReader capacity).",
        assumptions: &["what the reader does after it returned an I/O error is not asserted (the property does not say)", "the fault point is a refill call that the fault-free run makes, so the fault is always reached"],
        level: "fault_enumeration",
        variants: &["full", "min"],
    }
}

pub fn kind_of(k: u8) -> ErrorKind {
    match k {
        0 => ErrorKind::Interrupted,
        1 => ErrorKind::Other,
        2 => ErrorKind::UnexpectedEof,
        3 => ErrorKind::WouldBlock,
        4 => ErrorKind::InvalidData,
        _ => ErrorKind::TimedOut,
    }
}

/// (records, number of refill calls, source offset at each refill call)
fn run_plan(c: &Case, plan: FaultPlan, stop_at_io: bool) -> (Vec<Rec>, usize, Vec<usize>) {
    let data = &c.input.0;
    let mut out = vec![];
    let mut extra = 0;
    let mut offsets = vec![];
    let mut starts = 0u32;
    if !c.asynch {
        let mut r = Reader::from_reader(ChunkedBufRead::with_plan(data, c.cuts.clone(), plan));
        apply_cfg(r.config_mut(), c.cfg);
        let mut buf = Vec::new();
        for _ in 0..call_bound(data.len()) + EXTRA_CALLS + 8 {
            buf.clear();
            let calls_before = r.get_mut().calls;
            let pos_before = r.get_mut().pos;
            let (ev, start_name) = {
                let e = r.read_event_into(&mut buf);
                let n = if let Ok(quick_xml::events::Event::Start(s)) = &e { Some(s.name().as_ref().to_vec()) } else { None };
                (ev_of(&e), n)
            };
            let calls_after = r.get_mut().calls;
            // approximate: all refills of this call are attributed the offset before the call
            for _ in calls_before..calls_after {
                offsets.push(pos_before);
            }
            let io = matches!(ev, Ev::Io(_));
            let mut done = matches!(ev, Ev::Eof) || ev.is_fatal();
            out.push(Rec { ev, pos: r.buffer_position(), err_pos: r.error_position() });
            let mut io = io;
            if let Some(name) = start_name {
                starts += 1;
                if (c.skip >> (starts % 8)) & 1 == 1 && !done {
                    let calls_b = r.get_mut().calls;
                    let pos_b = r.get_mut().pos;
                    let mut b2 = Vec::new();
                    let res = r.read_to_end_into(quick_xml::name::QName(&name), &mut b2);
                    for _ in calls_b..r.get_mut().calls {
                        offsets.push(pos_b);
                    }
                    let ev2 = match res {
                        Ok(span) => Ev::Comment(B(format!("skipped {}..{}", span.start, span.end).into_bytes())),
                        Err(e) => ev_of(&Err::<quick_xml::events::Event, _>(e)),
                    };
                    io = matches!(ev2, Ev::Io(_));
                    done = ev2.is_fatal() || matches!(ev2, Ev::MissingEndTag(_));
                    out.push(Rec { ev: ev2, pos: r.buffer_position(), err_pos: r.error_position() });
                }
            }
            if io && stop_at_io {
                break;
            }
            if done || extra > 0 {
                extra += 1;
                if extra > EXTRA_CALLS {
                    break;
                }
            }
        }
        let calls = r.get_mut().calls;
        (out, calls, offsets)
    } else {
        let mut r = Reader::from_reader(ChunkedAsync::with_plan(data, c.cuts.clone(), c.pend.clone(), plan));
        apply_cfg(r.config_mut(), c.cfg);
        let mut buf = Vec::new();
        for _ in 0..call_bound(data.len()) + EXTRA_CALLS + 8 {
            buf.clear();
            let calls_before = r.get_mut().calls;
            let pos_before = r.get_mut().pos;
            let (ev, start_name) = {
                let e = block_on(r.read_event_into_async(&mut buf));
                let n = if let Ok(quick_xml::events::Event::Start(s)) = &e { Some(s.name().as_ref().to_vec()) } else { None };
                (ev_of(&e), n)
            };
            let calls_after = r.get_mut().calls;
            for _ in calls_before..calls_after {
                offsets.push(pos_before);
            }
            let io = matches!(ev, Ev::Io(_));
            let mut done = matches!(ev, Ev::Eof) || ev.is_fatal();
            out.push(Rec { ev, pos: r.buffer_position(), err_pos: r.error_position() });
            let mut io = io;
            if let Some(name) = start_name {
                starts += 1;
                if (c.skip >> (starts % 8)) & 1 == 1 && !done {
                    let calls_b = r.get_mut().calls;
                    let pos_b = r.get_mut().pos;
                    let mut b2 = Vec::new();
                    let res = block_on(r.read_to_end_into_async(quick_xml::name::QName(&name), &mut b2));
                    for _ in calls_b..r.get_mut().calls {
                        offsets.push(pos_b);
                    }
                    let ev2 = match res {
                        Ok(span) => Ev::Comment(B(format!("skipped {}..{}", span.start, span.end).into_bytes())),
                        Err(e) => ev_of(&Err::<quick_xml::events::Event, _>(e)),
                    };
                    io = matches!(ev2, Ev::Io(_));
                    done = ev2.is_fatal() || matches!(ev2, Ev::MissingEndTag(_));
                    out.push(Rec { ev: ev2, pos: r.buffer_position(), err_pos: r.error_position() });
                }
            }
            if io && stop_at_io {
                break;
            }
            if done || extra > 0 {
                extra += 1;
                if extra > EXTRA_CALLS {
                    break;
                }
            }
        }
        let calls = r.get_mut().calls;
        (out, calls, offsets)
    }
}

thread_local! {
    static BASE: std::cell::RefCell<Option<(u64, Vec<Rec>, usize, Vec<usize>)>> = std::cell::RefCell::new(None);
}

fn base_of(c: &Case) -> (Vec<Rec>, usize, Vec<usize>) {
    let key = crate::engine::hash_of(&(&c.input.0, c.cfg, &c.cuts, c.asynch, &c.pend, c.skip));
    BASE.with(|b| {
        let mut b = b.borrow_mut();
        if let Some((k, r, n, o)) = &*b {
            if *k == key {
                return (r.clone(), *n, o.clone());
            }
        }
        let (r, n, o) = run_plan(c, FaultPlan::none(), false);
        *b = Some((key, r.clone(), n, o.clone()));
        (r, n, o)
    })
}

pub fn check(c: &Case) -> Verdict {
    let (base, ncalls, offsets) = base_of(c);
    if base.iter().any(|r| matches!(r.ev, Ev::Io(_))) {
        return Verdict::fail(format!("the fault-free run returned an I/O error: {}", show_recs(&base)));
    }
    let mut plan = FaultPlan::none();
    let mut shift = 0usize;
    let mut hard: Option<(usize, u8)> = None;
    let mut faults = c.faults.clone();
    faults.sort();
    for (at, kind, rep) in &faults {
        if *at >= ncalls {
            return Verdict::excluded("fault-index-beyond-run");
        }
        if *kind == 0 {
            for j in 0..(*rep).max(1) as usize {
                plan.at.insert(*at + shift + j, ErrorKind::Interrupted);
            }
            shift += (*rep).max(1) as usize;
        } else {
            plan.at.insert(*at + shift, kind_of(*kind));
            hard = Some((*at, *kind));
            break;
        }
    }
    let (recs, _, _) = run_plan(c, plan.clone(), hard.is_some());
    // classification: does the first fault land inside a construct?
    let first_at = faults.first().map(|f| f.0).unwrap_or(0);
    let off = offsets.get(first_at).copied().unwrap_or(0);
    let toks = refxml::lex(&c.input.0);
    let bom = refxml::bom_len(&c.input.0);
    let _ = bom;
    let mut v = Verdict::pass(false);
    for l in &toks {
        if !matches!(l.tok, refxml::Tok::Text(_)) && off > l.start && off < l.end {
            v.nontrivial = true;
            v.classes.push("fault-inside-construct");
        }
    }
    v.classes.push(if c.asynch { "async" } else { "sync" });
    match hard {
        None => {
            v.classes.push("interrupt");
            if faults.len() > 1 {
                v.classes.push("multi-interrupt");
            }
            if let Some(d) = first_diff(&base, &recs) {
                v.fail = Some(format!("interrupts changed the run: {} | cfg={} cuts={:?} | fault-free: {} | with interrupts: {}", d, cfg_show(c.cfg), c.cuts, show_recs(&base), show_recs(&recs)));
            }
        }
        Some((_, kind)) => {
            v.classes.push("hard-error");
            let k = recs.iter().position(|r| matches!(r.ev, Ev::Io(_)));
            match k {
                None => {
                    v.fail = Some(format!("injected {:?} at refill {:?} was swallowed | cfg={} cuts={:?} | fault-free: {} | faulty: {}", kind_of(kind), faults, cfg_show(c.cfg), c.cuts, show_recs(&base), show_recs(&recs)));
                }
                Some(k) => {
                    if recs[..k] != base[..k.min(base.len())] {
                        v.fail = Some(format!("records before the I/O error are not a prefix of the fault-free run | cfg={} cuts={:?} | fault-free: {} | faulty: {}", cfg_show(c.cfg), c.cuts, show_recs(&base), show_recs(&recs)));
                    } else if let Ev::Io(m) = &recs[k].ev {
                        if !m.starts_with(&format!("{:?}:", kind_of(kind))) || !m.contains(FAULT_MARK) {
                            v.fail = Some(format!("the I/O error does not carry the injected kind/marker: {:?}", m));
                        }
                    }
                    // calls made AFTER the error (the source works again): the reader may be finished
                    // (Eof for ever - what it does today) or may resume exactly where the fault-free run
                    // goes on; anything else is an event fabricated from partial data
                    if v.fail.is_none() {
                        let (recs2, _, _) = run_plan(c, plan.clone(), false);
                        if let Some(k2) = recs2.iter().position(|r| matches!(r.ev, Ev::Io(_))) {
                            let post = &recs2[k2 + 1..];
                            // (a reader that keeps answering with an I/O error is finished too)
                            let finished = post.iter().all(|r| matches!(r.ev, Ev::Eof | Ev::Io(_)));
                            let resumed = post.iter().zip(base[k2.min(base.len())..].iter()).all(|(a, b)| a.ev == b.ev && a.pos == b.pos) && !post.is_empty();
                            if !finished && !resumed {
                                v.fail = Some(format!("after the I/O error (injected {:?} at refill {:?}) further calls returned {} - neither Eof / I/O errors only nor the continuation of the fault-free run: events fabricated from partial data | cfg={} cuts={:?} | fault-free: {}", kind_of(kind), faults, show_recs(post), cfg_show(c.cfg), c.cuts, show_recs(&base)));
                            }
                            v.classes.push("calls-after-the-io-error");
                        }
                    }
                }
            }
        }
    }
    v
}

/// all single-fault cases for one (document, configuration, chunking, source)
fn group(input: &[u8], cfg: u8, cuts: Vec<usize>, asynch: bool, pend: Vec<u8>, r: &mut SplitMix64, extra_multi: usize) -> Vec<Case> {
    let skip = if r.chance(1, 3) { r.next() as u8 } else { 0 };
    let proto = Case { input: B(input.to_vec()), cfg, cuts, asynch, pend, faults: vec![], skip };
    let (_, ncalls, _) = run_plan(&proto, FaultPlan::none(), false);
    let mut out = vec![];
    for at in 0..ncalls {
        // `at % 11 == 5`: a long burst of interrupts at one refill ("any number of times")
        let burst: &[(u8, u8)] = if at % 11 == 5 { &[(0, 130), (0, 250)] } else { &[] };
        for (kind, rep) in [(0u8, 1u8), (0, 2), (0, 3), (1, 1), (2, 1), (3, 1), (4, 1)].iter().chain(burst.iter()).copied() {
            let mut c = proto.clone();
            c.faults = vec![(at, kind, rep)];
            out.push(c);
        }
    }
    if ncalls > 0 && extra_multi > 0 {
        // one interrupt before EVERY refill of the run (many interrupts inside one long token)
        let mut c = proto.clone();
        c.faults = (0..ncalls).map(|k| (k, 0u8, 1u8)).collect();
        out.push(c);
    }
    for _ in 0..extra_multi {
        if ncalls == 0 {
            break;
        }
        let mut c = proto.clone();
        let n = 2 + r.below(4);
        let mut f: Vec<(usize, u8, u8)> = (0..n).map(|_| (r.below(ncalls as u64) as usize, 0u8, 1 + r.below(3) as u8)).collect();
        f.sort();
        f.dedup_by_key(|x| x.0);
        if r.chance(1, 3) {
            let at = r.below(ncalls as u64) as usize;
            f.retain(|x| x.0 < at);
            f.push((at, 1 + r.below(5) as u8, 1));
        }
        c.faults = f;
        out.push(c);
    }
    out
}

fn run(ctx: &Ctx) {
    ctx.run_regress::<Case, _>(check);
    let seed = ctx.seed;
    let corpus: Vec<Vec<u8>> = gen::corpus().into_iter().map(|c| c.1).filter(|d| d.len() <= ctx.tier.pick(600, 4000) && !refxml::is_utf16_like(d)).collect();
    let pieces: [usize; 4] = [1, 3, 7, 0];
    // documents: corpus + seeded soups; x piece sizes x trim on/off x sync/async
    let nsoup = ctx.tier.pick(1500u64, 20_000);
    let ndocs = corpus.len() as u64 + nsoup;
    ctx.run_groups(
        "docs-x-chunkings-x-every-refill-x-kinds",
        ndocs * 16,
        false,
        |i| {
            let d = i / 16;
            let v = i % 16;
            let mut r = SplitMix64::derive(seed, "c18-doc", d);
            let doc: Vec<u8> = if (d as usize) < corpus.len() { corpus[d as usize].clone() } else { gen::soup_seeded(&mut r, 12) };
            let piece = pieces[(v % 4) as usize];
            let mut r2 = SplitMix64::derive(seed, "c18-var", i);
            let cuts = if v % 4 == 3 && doc.len() > 2 && r2.chance(1, 2) { crate::props::c02::normalise_cuts(&doc, &(0..6).map(|_| 1 + r2.below(doc.len() as u64 - 1) as usize).collect::<Vec<_>>()) } else { crate::props::c02::normalise_cuts(&doc, &crate::sources::cuts_fixed(piece, doc.len())) };
            let trim = if (v / 4) % 2 == 1 { TRIM_START } else { 0 };
            let cfg = trim | (r2.next() as u8 & (127 & !TRIM_START));
            let asynch = v / 8 == 1;
            let pend = if asynch { (0..6).map(|_| r2.below(2) as u8).collect() } else { vec![] };
            group(&doc, cfg, cuts, asynch, pend, &mut r2, 6)
        },
        check,
    );
    // every short markup string, every cut set of two pieces, every fault point
    let n = ctx.tier.pick(4, 5);
    let count = gen::exh_count(13, n);
    ctx.run_groups(
        "exh-bytes-x-every-refill",
        count * 2,
        true,
        |i| {
            let input = gen::exh_bytes(gen::SIGMA1, i / 2);
            let mut r = SplitMix64::derive(seed, "c18-exh", i);
            let cuts = crate::sources::cuts_fixed(1, input.len());
            let cfg = r.next() as u8 & 127;
            group(&input, cfg, cuts, i % 2 == 1, vec![1, 0, 1], &mut r, 0)
        },
        check,
    );
    // offset and length sweep (see gen.rs): sampled inputs x piece sizes 7 / 16 / 33 x every refill
    let (pmax, qmax) = (130u64, 70u64);
    let total = gen::sweep_count(pmax, qmax, 1);
    let nsweep = ctx.tier.pick(3000u64, 40_000);
    ctx.run_groups(
        "offset-and-length-sweep-x-every-refill",
        nsweep,
        false,
        |i| {
            let mut r = SplitMix64::derive(seed, "c18-sweep", i);
            let input = gen::sweep_nth(r.below(total), pmax, qmax, 1);
            let cuts = crate::props::c02::normalise_cuts(&input, &crate::sources::cuts_fixed([7usize, 16, 33][(i % 3) as usize], input.len()));
            let cfg = r.next() as u8 & 127;
            let asynch = r.chance(1, 2);
            let pend = if asynch { vec![1, 0] } else { vec![] };
            group(&input, cfg, cuts, asynch, pend, &mut r, 2)
        },
        check,
    );
}

fn replay(_stage: &str, case: &Value) -> Result<Verdict, String> {
    let c: Case = serde_json::from_value(case.clone()).map_err(|e| e.to_string())?;
    Ok(check(&c))
}
