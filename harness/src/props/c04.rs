//! C04 — end tags are matched against open start tags exactly as configured, also when the
//! switches are flipped in the middle of the document.

use super::PropInfo;
use crate::cfgmodel::{Step, Walker};
use crate::engine::{scale, Ctx, Verdict, B};
use crate::rec::*;
use crate::refxml;
use crate::sources::ChunkedBufRead;
use proptest::prelude::*;
use quick_xml::reader::Reader;
use serde::{Deserialize, Serialize};
use serde_json::Value;

pub const NAMES: &[&[u8]] = &[
    b"a", b"ab", b"b", b"a:b", "\u{e9}".as_bytes(),
    // long names, one a proper prefix of the other, around the 16 / 32 / 64 byte marks
    b"n234567890123456", b"n2345678901234567", b"a-name-that-is-longer-than-thirty-two-bytes", b"a-name.of.more.than.sixty-four.bytes.so.that.the.name.buffer.grows.",
    // 127, 128, 129 and 301 bytes (one-byte length encodings, u8 arithmetic)
    b"m012345678901234567890123456789012345678901234567890123456789012345678901234567890123456789012345678901234567890123456789abcdef",
    b"m012345678901234567890123456789012345678901234567890123456789012345678901234567890123456789012345678901234567890123456789abcdefg",
    b"m012345678901234567890123456789012345678901234567890123456789012345678901234567890123456789012345678901234567890123456789abcdefgh",
    b"wabcdefghijabcdefghijabcdefghijabcdefghijabcdefghijabcdefghijabcdefghijabcdefghijabcdefghijabcdefghijabcdefghijabcdefghijabcdefghijabcdefghijabcdefghijabcdefghijabcdefghijabcdefghijabcdefghijabcdefghijabcdefghijabcdefghijabcdefghijabcdefghijabcdefghijabcdefghijabcdefghijabcdefghijabcdefghijabcdefghij",
    // names that are not valid UTF-8 and differ in one undecodable byte: matching is on BYTES, whatever the decoder makes of them
    b"caf\xe9", b"caf\xe8",
];
pub const TRAIL: &[&str] = &["", " ", "\t\n", "  ",
    // more than blanks after the first word: the NAME of such an end tag is all of it (minus trailing blanks when trimmed)
    " b", "\ta ", " a"];

fn trail_idx() -> impl Strategy<Value = u8> {
    prop_oneof![10 => 0u8..4, 1 => 4u8..7]
}

#[derive(Clone, Debug, Serialize, Deserialize, PartialEq)]
pub enum Item {
    Start(u8),
    End(u8, u8),
    Empty(u8),
    Text,
}

#[derive(Clone, Debug, Serialize, Deserialize, PartialEq)]
pub struct Case {
    pub items: Vec<Item>,
    /// initial setting of the four switches (bits as in rec.rs; other switches off)
    pub cfg: u8,
    /// (before read call k, switch bit, new value)
    pub flips: Vec<(u8, u8, bool)>,
    pub buffered: bool,
    /// read call indices after which, if that call returned a Start event, the element is skipped
    /// with read_to_end / read_to_end_into
    #[serde(default)]
    pub skips: Vec<u8>,
}

const FOUR: [u8; 4] = [ALLOW_UNMATCHED, CHECK_END_NAMES, EXPAND_EMPTY, TRIM_NAMES];

pub fn info() -> PropInfo {
    PropInfo {
        id: "C04",
        run,
        replay,
        rule: "cases = (tag sequence over names {a, ab, b, a:b, e-acute} with start/end(with trailing blanks)/empty/text items, not necessarily balanced; initial setting of check_end_names, allow_unmatched_ends, trim_markup_names_in_closing_tags, expand_empty_elements; flips of those switches before chosen read calls; slice or buffered source; after some start events the element is skipped with read_to_end / read_text / read_to_end_into, whose outcome (span or error) and final position must equal reading event by event on a clone of the reader). Oracle: a stack model fed call by call with the configuration in force at that call. Exhaustive for <=5 items over two names x all 16 static settings and for <=4 items x every single flip; proptest histories of up to 40 items with up to 6 flips. Non-trivial = a flip happens after at least one Start and at least one End is judged with name checking on after that flip. Names of 16..301 bytes (127/128/129 included) and nesting 60..300 deep occur among the generated histories. Two of the names are not valid UTF-8 and differ in one undecodable byte (matching is on bytes, whatever the decoder makes of them); some end tags carry more than blanks after the first word (`</a b>`, `</a\ta >`): the name of such a tag is all of it.",
        assumptions: &["whether an end tag reported as mismatched closes the innermost element is not fixed by the property: both continuations are accepted (set of possible stacks)", "the synthesized End of an expanded empty element is emitted whatever the switches are at that moment"],
        level: "exploration",
        variants: &["full"],
    }
}

fn c04_skip(skips: &[u8], k: usize) -> bool {
    skips.iter().any(|s| *s as usize == k)
}

pub fn render(items: &[Item]) -> Vec<u8> {
    let mut s: Vec<u8> = Vec::new();
    for it in items {
        match it {
            Item::Start(n) => {
                s.push(b'<');
                s.extend_from_slice(NAMES[*n as usize % NAMES.len()]);
                s.push(b'>');
            }
            Item::End(n, t) => {
                s.extend_from_slice(b"</");
                s.extend_from_slice(NAMES[*n as usize % NAMES.len()]);
                s.extend_from_slice(TRAIL[*t as usize % TRAIL.len()].as_bytes());
                s.push(b'>');
            }
            Item::Empty(n) => {
                s.extend_from_slice(b"<");
                s.extend_from_slice(NAMES[*n as usize % NAMES.len()]);
                s.extend_from_slice(b"/>");
            }
            Item::Text => s.push(b't'),
        }
    }
    s
}

pub fn check(c: &Case) -> Verdict {
    let data = render(&c.items);
    let toks = refxml::lex(&data);
    let mut w = Walker::new(&data, &toks);
    let mut bits = c.cfg & (ALLOW_UNMATCHED | CHECK_END_NAMES | EXPAND_EMPTY | TRIM_NAMES);
    let mut recs = vec![];
    let mut v = Verdict::pass(false);
    let mut seen_start = false;
    let mut flipped_after_start = false;
    let mut judged_after_flip = false;
    let mut mismatch_then_ok = false;
    let mut had_mismatch = false;
    let mut flip_inside_expanded = false;
    let mut max_depth = 0usize;
    let mut depth = 0usize;
    let mut skipped = 0u32;

    macro_rules! body {
        ($r:ident, $read:expr, $emu:ident, $emu_read:expr, $skip_name:ident, $skip:expr) => {{
            apply_cfg($r.config_mut(), bits);
            for k in 0..call_bound(data.len()) + 3 {
                for (at, bit, val) in &c.flips {
                    if *at as usize == k {
                        let b = FOUR[*bit as usize % 4];
                        if *val {
                            bits |= b;
                        } else {
                            bits &= !b;
                        }
                        apply_cfg($r.config_mut(), bits);
                        if seen_start {
                            flipped_after_start = true;
                        }
                        if w.pending_end.is_some() {
                            flip_inside_expanded = true;
                        }
                    }
                }
                let ev = ev_of(&$read);
                let rec = Rec { ev, pos: $r.buffer_position(), err_pos: $r.error_position() };
                match &rec.ev {
                    Ev::Start(..) => {
                        seen_start = true;
                        depth += 1;
                        max_depth = max_depth.max(depth);
                    }
                    Ev::End(_) | Ev::Mismatch(..) => {
                        depth = depth.saturating_sub(1);
                        if flipped_after_start && bits & CHECK_END_NAMES != 0 {
                            judged_after_flip = true;
                        }
                        if matches!(rec.ev, Ev::Mismatch(..)) {
                            had_mismatch = true;
                        } else if had_mismatch {
                            mismatch_then_ok = true;
                        }
                    }
                    _ => {}
                }
                let st = w.step(bits, &rec);
                recs.push(rec);
                if let Step::Bad(m) = st {
                    v.fail = Some(format!("call {}: {} | doc={} | switches now={} | records: {}", k, m, B::show(&data), cfg_show(bits), show_recs(&recs)));
                    break;
                }
                if matches!(recs.last().unwrap().ev, Ev::Eof) {
                    break;
                }
                // skip the element just opened: read_to_end* must behave like reading event by event
                // until the matching end tag (any error on the way is returned), under the
                // configuration in force now
                let start_name: Option<Vec<u8>> = match &recs.last().unwrap().ev {
                    Ev::Start(content, n) if c04_skip(&c.skips, k) => Some(content.0[..*n].to_vec()),
                    _ => None,
                };
                if let Some(name) = start_name {
                    skipped += 1;
                    let pos0 = $r.buffer_position();
                    // emulation on a clone of the reader
                    let mut $emu = $r.clone();
                    let mut emu_recs: Vec<Rec> = vec![];
                    let mut d = 0usize;
                    let mut before = pos0;
                    let emu_out: Result<(u64, u64), Ev> = loop {
                        let ev = ev_of(&$emu_read);
                        let rec = Rec { ev, pos: $emu.buffer_position(), err_pos: $emu.error_position() };
                        emu_recs.push(rec.clone());
                        match &rec.ev {
                            Ev::Start(c, n) if &c.0[..*n] == &name[..] => d += 1,
                            Ev::End(c) if &c.0[..] == &name[..] => {
                                if d == 0 {
                                    break Ok((pos0, before));
                                }
                                d -= 1;
                            }
                            Ev::Eof => break Err(Ev::MissingEndTag(String::from_utf8_lossy(&name).into_owned())),
                            e if e.is_err() => break Err(e.clone()),
                            _ => {}
                        }
                        before = rec.pos;
                        if emu_recs.len() > call_bound(data.len()) {
                            break Err(Ev::Other("emulation does not end".into()));
                        }
                    };
                    let $skip_name = quick_xml::name::QName(&name);
                    let real: Result<(u64, u64), Ev> = match $skip {
                        Ok(span) => Ok((span.start, span.end)),
                        Err(e) => Err(ev_of(&Err::<quick_xml::events::Event, _>(e))),
                    };
                    let same = match (&emu_out, &real) {
                        (Ok(a), Ok(b)) => a == b,
                        // the missing-end error carries the DECODED name; for a name that cannot be decoded the
                        // call reports the decoding failure instead - still an error at the same position
                        (Err(Ev::MissingEndTag(_)), Err(Ev::Other(m))) if std::str::from_utf8(&name).is_err() && m.starts_with("Encoding(") => true,
                        (Err(a), Err(b)) => a == b,
                        _ => false,
                    };
                    if !same || $emu.buffer_position() != $r.buffer_position() {
                        v.fail = Some(format!("after call {}: read_to_end(<{}>) gives {:?} at position {}, reading event by event gives {:?} at position {} ({}) | doc={} | switches now={}", k, String::from_utf8_lossy(&name), real, $r.buffer_position(), emu_out, $emu.buffer_position(), show_recs(&emu_recs), B::show(&data), cfg_show(bits)));
                        break;
                    }
                    // keep the model in step (and judge the events the emulation saw)
                    let mut bad = None;
                    for rec in &emu_recs {
                        match &rec.ev {
                            Ev::Start(..) => depth += 1,
                            Ev::End(_) | Ev::Mismatch(..) => {
                                depth = depth.saturating_sub(1);
                                if flipped_after_start && bits & CHECK_END_NAMES != 0 {
                                    judged_after_flip = true;
                                }
                            }
                            _ => {}
                        }
                        if let Step::Bad(m) = w.step(bits, rec) {
                            bad = Some(m);
                            break;
                        }
                    }
                    recs.extend(emu_recs);
                    if let Some(m) = bad {
                        v.fail = Some(format!("inside the skipped element after call {}: {} | doc={} | switches now={} | records: {}", k, m, B::show(&data), cfg_show(bits), show_recs(&recs)));
                        break;
                    }
                    if matches!(recs.last().unwrap().ev, Ev::Eof) {
                        break;
                    }
                }
            }
        }};
    }
    if c.buffered && data.len() % 3 == 1 {
        // the async twins: read_event_into_async / read_to_end_into_async
        use crate::sources::{block_on, ChunkedAsync};
        let mut r = Reader::from_reader(ChunkedAsync::new(&data, crate::sources::cuts_fixed(3, data.len()), vec![1, 0]));
        let mut buf = Vec::new();
        let mut ebuf = Vec::new();
        let mut sbuf = Vec::new();
        body!(
            r,
            {
                buf.clear();
                block_on(r.read_event_into_async(&mut buf))
            },
            emu,
            {
                ebuf.clear();
                block_on(emu.read_event_into_async(&mut ebuf))
            },
            qn,
            block_on(r.read_to_end_into_async(qn, &mut sbuf))
        );
        v.classes.push("async-source");
    } else if c.buffered {
        let mut r = Reader::from_reader(ChunkedBufRead::new(&data, crate::sources::cuts_fixed(3, data.len())));
        let mut buf = Vec::new();
        let mut ebuf = Vec::new();
        let mut sbuf = Vec::new();
        body!(
            r,
            {
                buf.clear();
                r.read_event_into(&mut buf)
            },
            emu,
            {
                ebuf.clear();
                emu.read_event_into(&mut ebuf)
            },
            qn,
            r.read_to_end_into(qn, &mut sbuf)
        );
    } else {
        let mut r = Reader::from_reader(&data[..]);
        // every other (decodable) document is skipped with read_text instead: the same span, as text
        let as_text = data.len() % 2 == 0 && std::str::from_utf8(&data).is_ok();
        body!(r, r.read_event(), emu, emu.read_event(), qn, if as_text {
            let before = r.buffer_position();
            r.read_text(qn).map(|t| before..before + t.len() as u64)
        } else {
            r.read_to_end(qn)
        });
        if as_text && skipped > 0 {
            v.classes.push("read_text-vs-event-by-event");
        }
    }
    if v.fail.is_some() {
        v.nontrivial = true;
        return v;
    }
    if !w.finished {
        return Verdict::fail(format!("reader did not reach the end of the document | doc={} | records: {}", B::show(&data), show_recs(&recs)));
    }
    v.nontrivial = flipped_after_start && judged_after_flip;
    if mismatch_then_ok {
        v.classes.push("mismatch-then-recovery");
    }
    if max_depth >= 3 {
        v.classes.push("depth>=3");
    }
    if flip_inside_expanded {
        v.classes.push("flip-between-expanded-start-and-end");
    }
    if recs.iter().any(|r| matches!(r.ev, Ev::Unmatched(_))) {
        v.classes.push("unmatched-end-error");
    }
    if c.flips.is_empty() {
        v.classes.push("static-settings");
    }
    if skipped > 0 {
        v.classes.push("read_to_end-vs-event-by-event");
    }
    if w.overflow {
        v.classes.push("stack-set-overflow-lenient");
    }
    v
}

const EXH_ITEMS: [Item; 8] = [Item::Start(0), Item::Start(1), Item::End(0, 0), Item::End(1, 0), Item::End(0, 1), Item::Empty(0), Item::Empty(1), Item::Text];

fn exh_items(mut idx: u64) -> Vec<Item> {
    let a = EXH_ITEMS.len() as u64;
    let mut len = 0;
    let mut p = 1u64;
    while idx >= p {
        idx -= p;
        p *= a;
        len += 1;
    }
    let mut out = vec![Item::Text; len];
    for k in (0..len).rev() {
        out[k] = EXH_ITEMS[(idx % a) as usize].clone();
        idx /= a;
    }
    out
}

fn static_bits(k: u64) -> u8 {
    let mut b = 0;
    for j in 0..4 {
        if k >> j & 1 == 1 {
            b |= FOUR[j];
        }
    }
    b
}

fn name_idx() -> impl Strategy<Value = u8> {
    prop_oneof![16 => 0u8..5, 2 => 5u8..9, 1 => 9u8..13, 3 => 13u8..15]
}

fn item_strategy() -> impl Strategy<Value = Item> {
    prop_oneof![
        4 => name_idx().prop_map(Item::Start),
        4 => (name_idx(), trail_idx()).prop_map(|(n, t)| Item::End(n, t)),
        2 => name_idx().prop_map(Item::Empty),
        1 => Just(Item::Text),
    ]
}

/// deep nesting (60..=300 open elements, the name buffer grows several times), closed in order
/// except for a few perturbations
fn deep_strategy() -> impl Strategy<Value = Vec<Item>> {
    (60usize..=300, prop::collection::vec(name_idx(), 8), prop::collection::vec((any::<u16>(), item_strategy()), 0..3)).prop_map(|(d, names, edits)| {
        let mut items = vec![];
        for k in 0..d {
            items.push(Item::Start(names[k % 8]));
            if k % 13 == 5 {
                items.push(Item::Empty(names[(k + 1) % 8]));
            }
        }
        for k in (0..d).rev() {
            items.push(Item::End(names[k % 8], (k % 4) as u8));
        }
        for (at, it) in edits {
            let k = scale(at, items.len() + 1);
            items.insert(k, it);
        }
        items
    })
}

/// mostly balanced documents, then perturbed: mismatches become rare enough for deep nesting
fn doc_strategy() -> impl Strategy<Value = Vec<Item>> {
    prop::collection::vec((name_idx(), trail_idx(), 0u8..10), 0..20).prop_flat_map(|plan| {
        // build a balanced skeleton from a plan of (name, trail, action)
        let mut items = vec![];
        let mut stack: Vec<u8> = vec![];
        for (n, t, act) in plan {
            match act {
                0..=3 => {
                    items.push(Item::Start(n));
                    stack.push(n);
                }
                4..=6 => {
                    if let Some(top) = stack.pop() {
                        items.push(Item::End(top, t));
                    } else {
                        items.push(Item::Empty(n));
                    }
                }
                7 => items.push(Item::Empty(n)),
                8 => items.push(Item::Text),
                _ => items.push(Item::End(n, t)),
            }
        }
        while let Some(top) = stack.pop() {
            items.push(Item::End(top, 0));
        }
        let len = items.len();
        (Just(items), prop::collection::vec((any::<u16>(), item_strategy(), 0u8..3), 0..3)).prop_map(move |(mut items, edits)| {
            for (at, it, kind) in edits {
                let k = scale(at, len + 1).min(items.len());
                match kind {
                    0 => items.insert(k, it),
                    1 if k < items.len() => {
                        items.remove(k);
                    }
                    2 if k < items.len() => items[k] = it,
                    _ => {}
                }
            }
            items
        })
    })
}

fn run(ctx: &Ctx) {
    ctx.run_regress::<Case, _>(check);
    let n = ctx.tier.pick(5, 6);
    let count = crate::gen::exh_count(8, n);
    ctx.run_indexed("exh-items-x-16-static-settings", count * 16, |i| Some(Case { items: exh_items(i / 16), cfg: static_bits(i % 16), flips: vec![], buffered: (i / 16) % 2 == 1, skips: if (i / 16) % 3 == 0 { vec![((i / 48) % 3) as u8] } else { vec![] } }), check);
    // every single flip: (call index 0..=5) x (4 switches) x (2 values) for <= 4 items
    let m = ctx.tier.pick(4, 5);
    let mcount = crate::gen::exh_count(8, m);
    ctx.run_indexed(
        "exh-items-x-every-single-flip",
        mcount * 16 * 56,
        |i| {
            let f = i % 56;
            let (at, bit, val) = ((f / 8) as u8, ((f / 2) % 4) as u8, f % 2 == 1);
            let items = exh_items(i / 56 / 16);
            if at as usize > items.len() + 1 {
                return None;
            }
            Some(Case { items, cfg: static_bits((i / 56) % 16), flips: vec![(at, bit, val)], buffered: false, skips: if i % 5 == 0 { vec![(i % 4) as u8] } else { vec![] } })
        },
        check,
    );
    let strat = (
        prop_oneof![10 => prop::collection::vec(item_strategy(), 0..40), 20 => doc_strategy(), 1 => deep_strategy()],
        0u8..128,
        prop::collection::vec((0u8..40, 0u8..4, any::<bool>()), 0..6),
        any::<bool>(),
        prop::collection::vec(0u8..24, 0..3),
    )
        .prop_map(|(items, cfg, flips, buffered, skips)| Case { items, cfg, flips, buffered, skips });
    ctx.run_proptest("histories-with-flips", ctx.tier.pick(1_500_000, 10_000_000), strat, check);
}

fn replay(_stage: &str, case: &Value) -> Result<Verdict, String> {
    let c: Case = serde_json::from_value(case.clone()).map_err(|e| e.to_string())?;
    Ok(check(&c))
}
