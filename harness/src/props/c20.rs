//! C20 — overlapped lists: interleaving siblings does not change the result (feature set full).

use super::PropInfo;
use crate::engine::{scale, Ctx, Verdict};
use crate::refxml::{self, Tok};
use crate::types::{any_string, elem_string, ser, SerOpts};
use proptest::prelude::*;
use serde::{Deserialize, Serialize};
use serde_json::Value;

#[derive(Serialize, Deserialize, PartialEq, Debug, Clone)]
pub struct OvItem {
    #[serde(rename = "@id")]
    pub id: u8,
    #[serde(default)]
    pub a: Vec<u8>,
    #[serde(default)]
    pub z: Vec<String>,
}

/// three list fields, a scalar element, an attribute; items of `a` contain a list named `a`
#[derive(Serialize, Deserialize, PartialEq, Debug, Clone)]
pub struct Ov {
    #[serde(rename = "@n")]
    pub n: u8,
    #[serde(default)]
    pub a: Vec<OvItem>,
    #[serde(default)]
    pub b: Vec<String>,
    #[serde(default)]
    pub c: Vec<u8>,
    pub s: String,
}

#[derive(Serialize, Deserialize, PartialEq, Debug, Clone)]
pub struct OvLeaf {
    #[serde(rename = "@k")]
    pub k: String,
    #[serde(rename = "$text", default)]
    pub text: String,
}

/// two list fields and a scalar
#[derive(Serialize, Deserialize, PartialEq, Debug, Clone)]
pub struct Ov2 {
    #[serde(default)]
    pub x: Vec<u16>,
    #[serde(default)]
    pub y: Vec<OvLeaf>,
    pub flag: bool,
}

/// fixed-size sequences (tuple, array) next to open-ended lists: a fixed-size sequence stops by
/// itself after its last item, an open-ended one at the end of the parent
#[derive(Serialize, Deserialize, PartialEq, Debug, Clone)]
pub struct Ov3 {
    pub p: (u16, u16),
    #[serde(default)]
    pub b: Vec<u16>,
    #[serde(default)]
    pub c: Vec<String>,
    #[serde(default, skip_serializing_if = "Option::is_none")]
    pub q: Option<[u8; 2]>,
    #[serde(default, skip_serializing_if = "Option::is_none")]
    pub t: Option<(String, u8, bool)>,
}

/// items of one list (`g`) contain elements named like the OTHER lists of the parent
#[derive(Serialize, Deserialize, PartialEq, Debug, Clone)]
pub struct OvGroup {
    #[serde(default)]
    pub a: Vec<u8>,
    #[serde(default)]
    pub c: Vec<String>,
}
#[derive(Serialize, Deserialize, PartialEq, Debug, Clone)]
pub struct Ov4 {
    #[serde(default)]
    pub a: Vec<u8>,
    #[serde(default)]
    pub c: Vec<String>,
    #[serde(default)]
    pub g: Vec<OvGroup>,
}

/// list names that are proper prefixes of each other (and of a scalar's name); one list has items
/// with attributes, so that the tag content continues after the name
#[derive(Serialize, Deserialize, PartialEq, Debug, Clone)]
pub struct Ov5 {
    #[serde(default)]
    pub id: Vec<u16>,
    #[serde(default)]
    pub idref: Vec<u16>,
    #[serde(default)]
    pub ids: Vec<OvLeaf>,
    #[serde(default)]
    pub i: Vec<OvLeaf>,
    pub idx: String,
}

#[derive(Serialize, Deserialize, PartialEq, Debug, Clone)]
pub enum OvVal {
    Ov(Ov),
    Ov2(Ov2),
    Ov3(Ov3),
    Ov4(Ov4),
    Ov5(Ov5),
}

#[derive(Clone, Debug, Serialize, Deserialize, PartialEq)]
pub struct Case {
    pub value: OvVal,
    /// interleaving of the root's children: each entry picks the group that provides the next child
    pub order: Vec<u16>,
    /// interleaving of the children of every nested item (one shared choice stream)
    pub nested_order: Vec<u16>,
    /// event buffer limits to try (besides "no limit"); empty = all of 1..=total+2
    pub limits: Vec<u16>,
    /// deserialize through Deserializer::from_reader over 3-byte pieces instead of from_str
    #[serde(default)]
    pub via_reader: bool,
    /// earlier settings of the limit on the same deserializer (0 = "no limit"), made before the
    /// setting under test: only the last setting counts
    #[serde(default)]
    pub presets: Vec<u16>,
}

pub fn info() -> PropInfo {
    PropInfo {
        id: "C20",
        run,
        replay,
        rule: "cases = (value of a struct with two or three list fields, scalar fields and list items that themselves contain same-named lists; an order-preserving interleaving of its child elements, also of the children of nested items; event-buffer limits; Deserializer::from_str or from_reader over 3-byte pieces). The contiguous serialization is cut into child elements and re-assembled in the chosen interleaving. Without a limit from_str(interleaved) == value. With limit k: the result is that value or TooManyEvents; success is monotone in k; every k below L must fail, where L is the largest number of deserializer events of not-yet-consumed foreign siblings lying strictly between the first and last item of a list at the time that list is deserialized (they have to be skipped while the sequence is read); every k >= total number of child events must succeed. ALL interleavings for values with <= 7 children, random ones above; limits 1..total+2. Non-trivial = the interleaving is not the contiguous one and at least one foreign sibling lies between two items of a list. A separate stage takes documents NOT produced by the serializer: optional children written with a prefixed nil attribute (true / 1 / false, with and without content, unprefixed look-alike) among the items of two lists, the nil namespace declared on an ancestor / on the struct's element / on the child / nowhere; every interleaving must give the value of the order in which the optional children come first (known finding F15 keyed on its exact signature). A third of the cases also try limits at the upper end of the number range (usize::MAX, MAX-1, MAX/2, MAX/16, 2^40): value back, no panic.",
        assumptions: &["between L and the total event count either outcome is accepted (the exact threshold of the algorithm is not asserted)", "feature overlapped-lists (feature set full) only"],
        level: "exploration",
        variants: &["full"],
    }
}

#[derive(Clone, Debug)]
struct Unit {
    name: String,
    text: String,
    events: usize,
}

/// split `<root ...>children</root>` into (open tag, children units, close tag)
fn split_children(doc: &str) -> Option<(String, Vec<Unit>, String)> {
    let b = doc.as_bytes();
    let toks = refxml::lex(b);
    if toks.is_empty() {
        return None;
    }
    if let Tok::Empty(..) = toks[0].tok {
        return Some((doc.to_string(), vec![], String::new()));
    }
    let open = doc[toks[0].start..toks[0].end].to_string();
    let close = doc[toks[toks.len() - 1].start..toks[toks.len() - 1].end].to_string();
    let mut units = vec![];
    let mut i = 1;
    while i + 1 < toks.len() {
        let start = i;
        let mut depth = 0;
        let mut events = 0;
        let name;
        match &toks[i].tok {
            Tok::Start(c, n) => {
                name = String::from_utf8_lossy(&c[..*n]).into_owned();
                loop {
                    match &toks[i].tok {
                        Tok::Start(..) => {
                            depth += 1;
                            events += 1;
                        }
                        Tok::End(_) => {
                            depth -= 1;
                            events += 1;
                        }
                        Tok::Empty(..) => events += 2,
                        Tok::Text(t) => {
                            if !t.iter().all(|c| refxml::ws(*c)) {
                                events += 1;
                            }
                        }
                        Tok::CData(_) => events += 1,
                        _ => {}
                    }
                    i += 1;
                    if depth == 0 {
                        break;
                    }
                }
            }
            Tok::Empty(c, n) => {
                name = String::from_utf8_lossy(&c[..*n]).into_owned();
                events = 2;
                i += 1;
            }
            _ => return None,
        }
        units.push(Unit { name, text: doc[toks[start].start..toks[i - 1].end].to_string(), events });
    }
    Some((open, units, close))
}

/// order-preserving interleaving driven by a choice stream; returns the new order (indices)
fn interleave(units: &[Unit], choices: &mut dyn Iterator<Item = u16>) -> Vec<usize> {
    let mut groups: Vec<(String, Vec<usize>)> = vec![];
    for (i, u) in units.iter().enumerate() {
        match groups.iter_mut().find(|g| g.0 == u.name) {
            Some(g) => g.1.push(i),
            None => groups.push((u.name.clone(), vec![i])),
        }
    }
    for g in groups.iter_mut() {
        g.1.reverse();
    }
    let mut out = vec![];
    while groups.iter().any(|g| !g.1.is_empty()) {
        let live: Vec<usize> = (0..groups.len()).filter(|k| !groups[*k].1.is_empty()).collect();
        let pick = live[scale(choices.next().unwrap_or(0), live.len())];
        out.push(groups[pick].1.pop().unwrap());
    }
    out
}

/// lower bound L for one level: fields are processed in order of first appearance among the
/// unconsumed children; while a list is read, every unconsumed foreign child strictly between
/// its first and last item has to be skipped
fn level_need(order: &[&Unit]) -> usize {
    let n = order.len();
    let mut consumed = vec![false; n];
    let mut need = 0;
    for i in 0..n {
        if consumed[i] {
            continue;
        }
        let name = &order[i].name;
        let last = (0..n).rev().find(|k| &order[*k].name == name).unwrap();
        let mut held = 0;
        for k in i..=last {
            if &order[k].name == name {
                consumed[k] = true;
            } else if !consumed[k] {
                held += order[k].events;
            }
        }
        need = need.max(held);
    }
    need
}

struct Built {
    doc: String,
    total_events: usize,
    need: usize,
    contiguous: bool,
    overlapped: bool,
}

fn build(c: &Case) -> Option<Built> {
    let plain = SerOpts::plain();
    let doc = match &c.value {
        OvVal::Ov(v) => ser(v, &plain).ok()?,
        OvVal::Ov2(v) => ser(v, &plain).ok()?,
        OvVal::Ov3(v) => ser(v, &plain).ok()?,
        OvVal::Ov4(v) => ser(v, &plain).ok()?,
        OvVal::Ov5(v) => ser(v, &plain).ok()?,
    };
    let (open, units, close) = split_children(&doc)?;
    let mut nested_choices = c.nested_order.iter().copied();
    let mut need = 0;
    // nested items (elements named `a` with children of their own) get their own interleaving
    let mut units2 = vec![];
    let mut overlapped = false;
    for u in &units {
        if u.name == "a" && u.events > 2 {
            if let Some((o, inner, cl)) = split_children(&u.text) {
                if inner.len() >= 2 {
                    let ord = interleave(&inner, &mut nested_choices);
                    let ordered: Vec<&Unit> = ord.iter().map(|k| &inner[*k]).collect();
                    let nn = level_need(&ordered);
                    if nn > 0 {
                        overlapped = true;
                    }
                    need = need.max(nn);
                    let text = format!("{}{}{}", o, ordered.iter().map(|x| x.text.as_str()).collect::<String>(), cl);
                    units2.push(Unit { name: u.name.clone(), text, events: u.events });
                    continue;
                }
            }
        }
        units2.push(u.clone());
    }
    let mut choices = c.order.iter().copied();
    let ord = interleave(&units2, &mut choices);
    let ordered: Vec<&Unit> = ord.iter().map(|k| &units2[*k]).collect();
    let top = level_need(&ordered);
    if top > 0 {
        overlapped = true;
    }
    need = need.max(top);
    let body: String = ordered.iter().map(|x| x.text.as_str()).collect();
    let contiguous = ord.iter().enumerate().all(|(a, b)| a == *b) && !overlapped;
    Some(Built { doc: format!("{}{}{}", open, body, close), total_events: units2.iter().map(|u| u.events).sum(), need, contiguous, overlapped })
}

#[cfg(feature = "full")]
fn de_with_limit(v: &OvVal, xml: &str, limit: Option<usize>, via_reader: bool, presets: &[u16]) -> Result<OvVal, quick_xml::DeError> {
    if via_reader {
        let src = crate::sources::ChunkedBufRead::new(xml.as_bytes(), crate::sources::cuts_fixed(3, xml.len()));
        let mut de = quick_xml::de::Deserializer::from_reader(src);
        for p in presets {
            de.event_buffer_size(std::num::NonZeroUsize::new(*p as usize));
        }
        // "no limit" with no earlier setting = the method is never called (the default must be "none")
        if limit.is_some() || !presets.is_empty() {
            de.event_buffer_size(limit.and_then(std::num::NonZeroUsize::new));
        }
        return match v {
            OvVal::Ov(_) => Ov::deserialize(&mut de).map(OvVal::Ov),
            OvVal::Ov2(_) => Ov2::deserialize(&mut de).map(OvVal::Ov2),
            OvVal::Ov3(_) => Ov3::deserialize(&mut de).map(OvVal::Ov3),
            OvVal::Ov4(_) => Ov4::deserialize(&mut de).map(OvVal::Ov4),
            OvVal::Ov5(_) => Ov5::deserialize(&mut de).map(OvVal::Ov5),
        };
    }
    let mut de = quick_xml::de::Deserializer::from_str(xml);
    for p in presets {
        de.event_buffer_size(std::num::NonZeroUsize::new(*p as usize));
    }
    if limit.is_some() || !presets.is_empty() {
        de.event_buffer_size(limit.and_then(std::num::NonZeroUsize::new));
    }
    match v {
        OvVal::Ov(_) => Ov::deserialize(&mut de).map(OvVal::Ov),
        OvVal::Ov2(_) => Ov2::deserialize(&mut de).map(OvVal::Ov2),
        OvVal::Ov3(_) => Ov3::deserialize(&mut de).map(OvVal::Ov3),
        OvVal::Ov4(_) => Ov4::deserialize(&mut de).map(OvVal::Ov4),
        OvVal::Ov5(_) => Ov5::deserialize(&mut de).map(OvVal::Ov5),
    }
}

#[cfg(not(feature = "full"))]
fn de_with_limit(_v: &OvVal, _xml: &str, _limit: Option<usize>, _via_reader: bool, _presets: &[u16]) -> Result<OvVal, quick_xml::DeError> {
    Err(quick_xml::DeError::Custom("overlapped-lists is not enabled in this build".into()))
}

fn is_too_many(e: &quick_xml::DeError) -> bool {
    format!("{:?}", e).starts_with("TooManyEvents")
}

pub fn check(c: &Case) -> Verdict {
    if !cfg!(feature = "full") {
        return Verdict::excluded("feature-set-min");
    }
    let b = match build(c) {
        Some(b) => b,
        None => return Verdict::excluded("not-splittable"),
    };
    match de_with_limit(&c.value, &b.doc, None, c.via_reader, &c.presets) {
        Ok(v) if v == c.value => {}
        Ok(v) => return Verdict::fail(format!("interleaved document {:?} deserializes to {:?}, expected {:?}", b.doc, v, c.value)),
        Err(e) => return Verdict::fail(format!("interleaved document {:?} fails without a limit: {}", b.doc, e)),
    }
    let limits: Vec<usize> = if c.limits.is_empty() { (1..=b.total_events + 2).collect() } else { c.limits.iter().map(|l| 1 + scale(*l, b.total_events + 2)).collect() };
    let mut sorted = limits.clone();
    sorted.sort();
    sorted.dedup();
    let mut succeeded_at: Option<usize> = None;
    for k in sorted {
        match de_with_limit(&c.value, &b.doc, Some(k), c.via_reader, &c.presets) {
            Ok(v) => {
                if v != c.value {
                    return Verdict::fail(format!("limit {}: document {:?} deserializes to {:?}, expected {:?}", k, b.doc, v, c.value));
                }
                if k < b.need {
                    return Verdict::fail(format!("limit {} succeeded although {} events of foreign siblings lie between the first and last item of one list | {:?}", k, b.need, b.doc));
                }
                succeeded_at.get_or_insert(k);
            }
            Err(e) if is_too_many(&e) => {
                if let Some(s) = succeeded_at {
                    return Verdict::fail(format!("limit {} succeeded but the larger limit {} fails with TooManyEvents | {:?}", s, k, b.doc));
                }
                if k >= b.total_events {
                    return Verdict::fail(format!("limit {} >= total number of child events {} still fails with TooManyEvents | {:?}", k, b.total_events, b.doc));
                }
            }
            Err(e) => return Verdict::fail(format!("limit {}: unexpected error {} | {:?}", k, e, b.doc)),
        }
    }
    // limits at the upper end of the number range ("practically unlimited"): they are above the total
    // number of events, so the value must come back
    let mut huge = false;
    if c.order.len() % 3 == 0 {
        huge = true;
        for big in [usize::MAX, usize::MAX - 1, usize::MAX >> 1, usize::MAX >> 4, 1usize << 40] {
            let r = std::panic::catch_unwind(std::panic::AssertUnwindSafe(|| de_with_limit(&c.value, &b.doc, Some(big), c.via_reader, &c.presets)));
            match r {
                Ok(Ok(v)) if v == c.value => {}
                Ok(Ok(v)) => return Verdict::fail(format!("limit {}: document {:?} deserializes to {:?}, expected {:?}", big, b.doc, v, c.value)),
                Ok(Err(e)) => return Verdict::fail(format!("limit {} (far above the {} events of the document) fails: {} | {:?}", big, b.total_events, e, b.doc)),
                Err(p) => {
                    let msg = p.downcast_ref::<String>().cloned().or_else(|| p.downcast_ref::<&str>().map(|s| s.to_string())).unwrap_or_default();
                    return Verdict::fail(format!("limit {}: panic: {} | {:?}", big, msg, b.doc));
                }
            }
        }
    }
    let mut v = Verdict::pass(!b.contiguous && b.overlapped);
    if huge {
        v.classes.push("limits-at-the-upper-end-of-usize");
    }
    if b.need > 0 {
        v.classes.push("needs-buffering");
    }
    if b.contiguous {
        v.classes.push("contiguous");
    }
    if b.need >= 65 {
        v.classes.push(">=65-events-held");
    }
    if !c.presets.is_empty() {
        v.classes.push("limit-set-several-times");
    }
    if b.need > 1024 {
        v.classes.push(">1024-events-held");
    }
    if matches!(c.value, OvVal::Ov5(_)) {
        v.classes.push("list-names-that-are-prefixes-of-each-other");
    }
    if matches!(c.value, OvVal::Ov4(_)) {
        v.classes.push("list-items-containing-names-of-sibling-lists");
    }
    if matches!(c.value, OvVal::Ov3(_)) {
        v.classes.push("fixed-size-sequences-among-the-lists");
    }
    v
}


// ---------------------------------------------------------------------------------------------
// interleavings of documents that were not produced by the serializer: optional children written
// with `xsi:nil` among the items of two lists. All interleavings must give the value of the order in
// which the optional children come first (nothing is replayed before them).

#[derive(Serialize, Deserialize, PartialEq, Debug, Clone)]
pub struct OvNil {
    #[serde(default)]
    pub a: Vec<u32>,
    #[serde(default)]
    pub b: Vec<String>,
    pub opt: Option<String>,
    #[serde(default)]
    pub n: Option<u16>,
}
#[derive(Serialize, Deserialize, PartialEq, Debug, Clone)]
pub struct OvNilOuter {
    pub root: OvNil,
}

pub const F15: &str = "F15-nil-attribute-of-a-replayed-element-resolved-in-the-scope-at-replay-time";

#[derive(Clone, Debug, Serialize, Deserialize, PartialEq)]
pub struct NilCase {
    pub a: Vec<u32>,
    pub b: Vec<String>,
    /// `<opt>`: 0 absent, 1 `<opt/>`, 2 `<opt>t</opt>`, 3 nil + empty, 4 nil + content, 5 unprefixed nil, 6 nil="false", 7 nil="1"
    pub opt: u8,
    /// `<n>`: 0 absent, 1 `<n>7</n>`, 2 nil + empty, 3 nil + content
    pub n: u8,
    /// where the declaration of the nil namespace sits: 0 on an ancestor of the struct's element, 1 on
    /// the struct's element, 2 on the child itself, 3 nowhere
    pub decl: u8,
    /// prefix used: 0 `xsi`, 1 `p`
    pub prefix: u8,
    pub order: Vec<u16>,
    pub via_reader: bool,
}

const XSI: &str = "http://www.w3.org/2001/XMLSchema-instance";

fn nil_units(c: &NilCase, strip_nil_after_first_item: Option<&[usize]>) -> (Vec<Unit>, String, String) {
    let pre = ["xsi", "p"][c.prefix as usize % 2];
    let decl = format!(" xmlns:{}=\"{}\"", pre, XSI);
    let on_child = if c.decl % 4 == 2 { decl.as_str() } else { "" };
    let mut units = vec![];
    let opt = match c.opt % 8 {
        0 => None,
        1 => Some("<opt/>".to_string()),
        2 => Some("<opt>t</opt>".to_string()),
        3 => Some(format!("<opt{} {}:nil=\"true\"/>", on_child, pre)),
        4 => Some(format!("<opt{} {}:nil=\"true\">x</opt>", on_child, pre)),
        5 => Some("<opt nil=\"true\"/>".to_string()),
        6 => Some(format!("<opt{} {}:nil=\"false\">y</opt>", on_child, pre)),
        _ => Some(format!("<opt{} {}:nil=\"1\"/>", on_child, pre)),
    };
    let n = match c.n % 4 {
        0 => None,
        1 => Some("<n>7</n>".to_string()),
        2 => Some(format!("<n{} {}:nil=\"true\"/>", on_child, pre)),
        _ => Some(format!("<n{} {}:nil=\"true\">8</n>", on_child, pre)),
    };
    if let Some(t) = opt {
        units.push(Unit { name: "opt".into(), text: t, events: 2 });
    }
    if let Some(t) = n {
        units.push(Unit { name: "n".into(), text: t, events: 2 });
    }
    for x in &c.a {
        units.push(Unit { name: "a".into(), text: format!("<a>{}</a>", x), events: 3 });
    }
    for x in &c.b {
        units.push(Unit { name: "b".into(), text: format!("<b>{}</b>", quick_xml::escape::escape(x.as_str())), events: 3 });
    }
    if let Some(which) = strip_nil_after_first_item {
        for &k in which {
            let t = &mut units[k].text;
            *t = t.replace(&format!(" {}:nil=\"true\"", pre), "").replace(&format!(" {}:nil=\"1\"", pre), "");
        }
    }
    let open = format!("<o{}><root{}>", if c.decl % 4 == 0 { decl.as_str() } else { "" }, if c.decl % 4 == 1 { decl.as_str() } else { "" });
    (units, open, "</root></o>".to_string())
}

#[cfg(feature = "full")]
fn de_nil(xml: &str, via_reader: bool) -> Result<OvNilOuter, String> {
    if via_reader {
        let src = crate::sources::ChunkedBufRead::new(xml.as_bytes(), crate::sources::cuts_fixed(5, xml.len()));
        quick_xml::de::from_reader(src).map_err(|e| e.to_string())
    } else {
        quick_xml::de::from_str(xml).map_err(|e| e.to_string())
    }
}
#[cfg(not(feature = "full"))]
fn de_nil(_xml: &str, _via_reader: bool) -> Result<OvNilOuter, String> {
    Err("overlapped-lists is not enabled in this build".into())
}

pub fn check_nil(c: &NilCase) -> Verdict {
    if !cfg!(feature = "full") {
        return Verdict::excluded("feature-set-min");
    }
    if c.b.iter().any(|s| s.trim_matches(|ch| matches!(ch, ' ' | '\t' | '\n' | '\r')).is_empty()) {
        // blank strings read back differently (trimming): not the subject here
        return Verdict::excluded("blank-list-item");
    }
    let (units, open, close) = nil_units(c, None);
    let canonical: String = units.iter().map(|u| u.text.as_str()).collect();
    let canonical = format!("{}{}{}", open, canonical, close);
    let order = interleave(&units, &mut c.order.iter().copied());
    let doc: String = order.iter().map(|&k| units[k].text.as_str()).collect();
    let doc = format!("{}{}{}", open, doc, close);
    let want = de_nil(&canonical, c.via_reader);
    let got = de_nil(&doc, c.via_reader);
    // which optional children come after the first list item (they are replayed)?
    let first_item = order.iter().position(|&k| units[k].name == "a" || units[k].name == "b");
    let replayed: Vec<usize> = match first_item {
        Some(f) => order.iter().enumerate().filter(|(pos, &k)| *pos > f && (units[k].name == "opt" || units[k].name == "n")).map(|(_, &k)| k).collect(),
        None => vec![],
    };
    let nil_replayed = replayed.iter().any(|&k| units[k].text.contains(":nil=\"true\"") || units[k].text.contains(":nil=\"1\""));
    let mut v = Verdict::pass(nil_replayed);
    if nil_replayed {
        v.classes.push("nil-child-after-the-first-list-item");
    }
    v.classes.push(["nil-namespace-declared-on-an-ancestor", "nil-namespace-declared-on-the-struct-element", "nil-namespace-declared-on-the-child", "nil-prefix-undeclared"][c.decl as usize % 4]);
    if got == want {
        return v;
    }
    // F15: the replayed children were judged as if they had no nil attribute, because the prefix is
    // resolved against the scopes open at replay time (the declaring element has ended / the child's
    // own declarations are not in scope)
    if nil_replayed && matches!(c.decl % 4, 1 | 2) {
        let (u2, _, _) = nil_units(c, Some(&replayed));
        let stripped: String = u2.iter().map(|u| u.text.as_str()).collect();
        let as_if = de_nil(&format!("{}{}{}", open, stripped, close), c.via_reader);
        if got == as_if {
            v.nontrivial = true;
            v.known.push(F15);
            return v;
        }
    }
    Verdict::fail(format!("interleaving {:?} gives {:?}; with the optional children first ({:?}) the result is {:?}", doc, got, canonical, want))
}

fn item() -> impl Strategy<Value = OvItem> {
    (any::<u8>(), prop::collection::vec(any::<u8>(), 0..3), prop::collection::vec(elem_string(), 0..2)).prop_map(|(id, a, z)| OvItem { id, a, z })
}

fn value_strategy(max: usize) -> impl Strategy<Value = OvVal> {
    prop_oneof![
        (any::<u8>(), prop::collection::vec(item(), 0..=max.min(3)), prop::collection::vec(elem_string(), 0..=max.min(3)), prop::collection::vec(any::<u8>(), 0..=max.min(3)), elem_string()).prop_map(|(n, a, b, c, s)| OvVal::Ov(Ov { n, a, b, c, s })),
        (prop::collection::vec(any::<u16>(), 0..=max.min(4)), prop::collection::vec((any_string(), elem_string()).prop_map(|(k, text)| OvLeaf { k, text }), 0..=max.min(4)), any::<bool>()).prop_map(|(x, y, flag)| OvVal::Ov2(Ov2 { x, y, flag })),
        (any::<(u16, u16)>(), prop::collection::vec(any::<u16>(), 0..=max.min(3)), prop::collection::vec(elem_string().prop_filter("non-empty", |s| !s.is_empty()), 0..=max.min(3)), prop::option::weighted(0.4, any::<[u8; 2]>()), prop::option::weighted(0.3, (elem_string().prop_filter("non-empty", |s| !s.is_empty()), any::<u8>(), any::<bool>())))
            .prop_map(|(p, b, c, q, t)| OvVal::Ov3(Ov3 { p, b, c, q, t })),
        (prop::collection::vec(any::<u8>(), 0..=max.min(3)), prop::collection::vec(elem_string().prop_filter("non-empty", |s| !s.is_empty()), 0..=max.min(2)), prop::collection::vec((prop::collection::vec(any::<u8>(), 0..3), prop::collection::vec(elem_string().prop_filter("non-empty", |s| !s.is_empty()), 0..2)).prop_map(|(a, c)| OvGroup { a, c }), 0..=max.min(3)))
            .prop_map(|(a, c, g)| OvVal::Ov4(Ov4 { a, c, g })),
        (prop::collection::vec(any::<u16>(), 0..=max.min(3)), prop::collection::vec(any::<u16>(), 0..=max.min(3)), prop::collection::vec((any_string(), elem_string()).prop_map(|(k, text)| OvLeaf { k, text }), 0..=max.min(2)), prop::collection::vec((any_string(), elem_string()).prop_map(|(k, text)| OvLeaf { k, text }), 0..=max.min(2)), elem_string())
            .prop_map(|(id, idref, ids, i, idx)| OvVal::Ov5(Ov5 { id, idref, ids, i, idx })),
    ]
}

/// all multiset permutations of group labels, as choice streams for `interleave`
fn all_orders(units: &[Unit]) -> Vec<Vec<u16>> {
    let mut groups: Vec<(String, usize)> = vec![];
    for u in units {
        match groups.iter_mut().find(|g| g.0 == u.name) {
            Some(g) => g.1 += 1,
            None => groups.push((u.name.clone(), 1)),
        }
    }
    let mut out = vec![];
    fn rec(rem: &mut Vec<usize>, cur: &mut Vec<u16>, out: &mut Vec<Vec<u16>>) {
        let live: Vec<usize> = (0..rem.len()).filter(|k| rem[*k] > 0).collect();
        if live.is_empty() {
            out.push(cur.clone());
            return;
        }
        for (pos, g) in live.iter().enumerate() {
            rem[*g] -= 1;
            // the choice value that makes `scale(choice, live.len()) == pos`
            cur.push(((pos * 65536 + 32768) / live.len()) as u16);
            rec(rem, cur, out);
            cur.pop();
            rem[*g] += 1;
        }
    }
    let mut rem: Vec<usize> = groups.iter().map(|g| g.1).collect();
    rec(&mut rem, &mut vec![], &mut out);
    out
}

/// choice stream that makes `interleave` pick the groups in the given sequence
fn choices_for(wanted: &[usize], sizes: &[usize]) -> Vec<u16> {
    let mut left = sizes.to_vec();
    let mut out = vec![];
    for g in wanted {
        let live: Vec<usize> = (0..left.len()).filter(|k| left[*k] > 0).collect();
        let pos = live.iter().position(|k| k == g).expect("group exhausted");
        out.push(((pos * 65536 + 32768) / live.len()) as u16);
        left[*g] -= 1;
    }
    out
}

fn run(ctx: &Ctx) {
    ctx.run_regress::<Case, _>(check);
    // all interleavings x all limits for small values
    let nvals = ctx.tier.pick(1500usize, 20000);
    let vals: Vec<OvVal> = crate::engine::sample_strategy(&value_strategy(2), ctx.seed ^ 0x20, nvals * 2)
        .into_iter()
        .filter(|v| {
            let doc = match v {
                OvVal::Ov(x) => ser(x, &SerOpts::plain()),
                OvVal::Ov2(x) => ser(x, &SerOpts::plain()),
                OvVal::Ov3(x) => ser(x, &SerOpts::plain()),
                OvVal::Ov4(x) => ser(x, &SerOpts::plain()),
                OvVal::Ov5(x) => ser(x, &SerOpts::plain()),
            };
            doc.ok().and_then(|d| split_children(&d)).map_or(false, |(_, u, _)| u.len() >= 3 && u.len() <= 7)
        })
        .take(nvals)
        .collect();
    ctx.run_groups(
        "all-interleavings-x-all-limits",
        vals.len() as u64,
        true,
        |i| {
            let v = &vals[i as usize];
            let doc = match v {
                OvVal::Ov(x) => ser(x, &SerOpts::plain()),
                OvVal::Ov2(x) => ser(x, &SerOpts::plain()),
                OvVal::Ov3(x) => ser(x, &SerOpts::plain()),
                OvVal::Ov4(x) => ser(x, &SerOpts::plain()),
                OvVal::Ov5(x) => ser(x, &SerOpts::plain()),
            }
            .unwrap();
            let (_, units, _) = split_children(&doc).unwrap();
            all_orders(&units).into_iter().enumerate().map(|(k, order)| Case { value: v.clone(), order, nested_order: vec![(k as u16).wrapping_mul(9973), (k as u16).wrapping_mul(31), 40000, 123], limits: vec![], via_reader: k % 3 == 2, presets: match k % 5 { 1 => vec![1], 3 => vec![2, 0], _ => vec![] } }).collect()
        },
        check,
    );
    let presets = || prop_oneof![3 => Just(vec![]), 1 => prop::collection::vec(prop_oneof![Just(0u16), 1u16..6], 1..3)];
    let strat = move || Box::new((value_strategy(4), prop::collection::vec(any::<u16>(), 0..16), prop::collection::vec(any::<u16>(), 0..12), prop::collection::vec(any::<u16>(), 0..6), any::<bool>(), presets()).prop_map(|(value, order, nested_order, limits, via_reader, presets)| Case { value, order, nested_order, limits, via_reader, presets }));
    ctx.run_proptest_with("random-interleavings", ctx.tier.pick(600_000, 5_000_000), strat, check);
    // optional children written with xsi:nil among the list items (documents not produced by the serializer)
    let nil = (prop::collection::vec(0u32..100, 0..4), prop::collection::vec(elem_string(), 0..3), 0u8..8, 0u8..4, 0u8..4, 0u8..2, prop::collection::vec(any::<u16>(), 0..10), any::<bool>()).prop_map(|(a, b, opt, n, decl, prefix, order, via_reader)| NilCase { a, b, opt, n, decl, prefix, order, via_reader });
    ctx.run_proptest("nil-children-among-list-items", ctx.tier.pick(300_000, 3_000_000), nil, check_nil);
    // long lists: dozens to hundreds of skipped events are held while a later item of another list is read
    let long = move || {
        Box::new(
            (any::<u8>(), prop::collection::vec(item(), 1..4), prop::collection::vec(elem_string(), 20..90), prop::collection::vec(any::<u8>(), 0..40), elem_string(), prop::collection::vec(any::<u16>(), 0..200), prop::collection::vec(any::<u16>(), 0..12), prop::collection::vec(any::<u16>(), 0..4), any::<bool>())
                .prop_map(|(n, a, b, c, s, order, nested_order, limits, via_reader)| Case { value: OvVal::Ov(Ov { n, a, b, c, s }), order, nested_order, limits: if limits.is_empty() { vec![65535] } else { limits }, via_reader, presets: vec![] }),
        )
    };
    // more than 1024 skipped events held at once, no limit requested (and limits far above)
    ctx.run_indexed(
        "more-than-1024-events-held",
        ctx.tier.pick(24, 96),
        |i| {
            let n = [350usize, 400, 700, 1500][(i % 4) as usize];
            let b: Vec<String> = (0..n).map(|k| format!("x{}", (k as u64 * 7 + i) % 10)).collect();
            let a = vec![OvItem { id: 1, a: vec![1], z: vec![] }, OvItem { id: 2, a: vec![], z: vec!["z".into()] }];
            // order: first item of `a`, all of `b`, then the second item of `a`, then the rest
            // (groups in document order: a, b, c, s)
            let mut wanted = vec![0usize];
            wanted.extend(std::iter::repeat(1usize).take(n));
            wanted.extend([0usize, 2, 3]);
            let order = choices_for(&wanted, &[2, n, 1, 1]);
            Some(Case { value: OvVal::Ov(Ov { n: 0, a, b, c: vec![(i % 250) as u8], s: "s".into() }), order, nested_order: vec![], limits: vec![65535, 65000], via_reader: i % 3 == 1, presets: vec![] })
        },
        check,
    );
    ctx.run_proptest_with("long-lists-random-interleavings", ctx.tier.pick(40_000, 400_000), long, check);
}

fn replay(stage: &str, case: &Value) -> Result<Verdict, String> {
    if stage.starts_with("nil-children") {
        let c: NilCase = serde_json::from_value(case.clone()).map_err(|e| e.to_string())?;
        return Ok(check_nil(&c));
    }
    let c: Case = serde_json::from_value(case.clone()).map_err(|e| e.to_string())?;
    Ok(check(&c))
}
