//! C05 — namespace resolution follows the declarations in scope at each event, whatever the
//! history of consumer calls (read / read resolved / skip / read text) and the source kind.

use super::PropInfo;
use crate::doc::*;
use crate::engine::{sample_strategy, Ctx, Verdict, B};
use crate::rec::*;
use crate::sources::{block_on, ChunkedAsync, ChunkedBufRead};
use proptest::prelude::*;
use quick_xml::events::Event;
use quick_xml::name::{PrefixDeclaration, QName, ResolveResult};
use quick_xml::reader::NsReader;
use serde::{Deserialize, Serialize};
use serde_json::Value;
use std::collections::{BTreeMap, BTreeSet};

#[derive(Clone, Debug, Serialize, Deserialize, PartialEq)]
pub struct Case {
    pub doc: Doc,
    /// one entry per read call: bit0 = use the resolving read; bits1..2: 0/1 = go on reading,
    /// 2 = skip with read_to_end*, 3 = read_text (slice) / read_to_end* (others). After a Start
    /// event the element just opened is skipped; after any other event the REST of the innermost
    /// open element is skipped
    pub choices: Vec<u8>,
    /// 0 slice, 1 buffered, 2 async
    pub source: u8,
    pub piece: u8,
    pub expand_empty: bool,
}

pub fn info() -> PropInfo {
    PropInfo {
        id: "C05",
        run,
        replay,
        rule: "cases = (well-formed document over prefixes {none,p,q,i,r,xml}, URIs {u1,u2,u3,xsi,''} with declarations, re-declarations, un-declarations and shadowing to depth 5, prefixed/unprefixed attributes, xsi:nil under the real and foreign URIs, undeclared prefixes; history of consumer calls: at every read plain or resolving read, at every Start go on / skip with read_to_end* / read_text; slice, chunked or async source; expand_empty on/off). Oracle: the in-scope map computed from the tree. After every start/empty/end event: the ResolveResult of the resolving read, resolve_element(name), resolve_attribute(key) for every attribute, prefixes() as a set, has_nil. Small trees x ALL skip histories, larger trees random. Non-trivial = the history skips an element that carries a declaration and a later checked name would resolve differently if that scope had leaked. The prefix pool contains two pairs of long look-alike prefixes (same length, same first eight bytes).",
        assumptions: &["the scope is not inspected between a read_to_end*/read_text call and the next read", "documents are well-formed and free of illegal xml/xmlns bindings (those are errors)", "namespace URIs are compared as raw attribute bytes (the generator uses no references in them)"],
        level: "exploration",
        variants: &["full"],
    }
}

type Scope = BTreeMap<String, String>;
const XMLNS_NS: &str = "http://www.w3.org/2000/xmlns/";

fn decls_of(e: &ElemInfo) -> Vec<(String, String)> {
    let mut d = vec![];
    for (k, v) in &e.attrs {
        if k == "xmlns" {
            d.push((String::new(), v.clone()));
        } else if let Some(p) = k.strip_prefix("xmlns:") {
            d.push((p.to_string(), v.clone()));
        }
    }
    d
}

fn scopes(r: &Rendered) -> Vec<Scope> {
    let mut out: Vec<Scope> = vec![];
    for e in &r.elems {
        let mut s = match e.parent {
            Some(p) => out[p].clone(),
            None => {
                let mut s = Scope::new();
                s.insert("xml".into(), XML_NS.into());
                s.insert("xmlns".into(), XMLNS_NS.into());
                s
            }
        };
        for (p, u) in decls_of(e) {
            s.insert(p, u);
        }
        out.push(s);
    }
    out
}

#[derive(Debug, PartialEq, Clone)]
enum Res {
    Unbound,
    Bound(String),
    Unknown(String),
}

fn want_res(scope: &Scope, qname: &str, attribute: bool) -> Res {
    match qname.split_once(':') {
        Some((p, _)) => match scope.get(p) {
            Some(u) if !u.is_empty() => Res::Bound(u.clone()),
            _ => Res::Unknown(p.to_string()),
        },
        None => {
            if attribute {
                Res::Unbound
            } else {
                match scope.get("") {
                    Some(u) if !u.is_empty() => Res::Bound(u.clone()),
                    _ => Res::Unbound,
                }
            }
        }
    }
}

fn got_res(r: &ResolveResult) -> Res {
    match r {
        ResolveResult::Unbound => Res::Unbound,
        ResolveResult::Bound(ns) => Res::Bound(String::from_utf8_lossy(ns.as_ref()).into_owned()),
        ResolveResult::Unknown(p) => Res::Unknown(String::from_utf8_lossy(p).into_owned()),
    }
}

fn want_prefixes(scope: &Scope) -> BTreeSet<(String, String)> {
    scope.iter().filter(|(p, u)| !u.is_empty() && p.as_str() != "xml" && p.as_str() != "xmlns").map(|(p, u)| (p.clone(), u.clone())).collect()
}


/// the bindings that must be listed once element `id` has ended: those of its parent (none at top level)
fn prefixes_after_end(o: &Oracle, id: usize) -> BTreeSet<(String, String)> {
    match o.r.elems[id].parent {
        Some(p) => want_prefixes(&o.scopes[p]),
        None => BTreeSet::new(),
    }
}

fn listed<'x>(it: impl Iterator<Item = (PrefixDeclaration<'x>, quick_xml::name::Namespace<'x>)>) -> BTreeSet<(String, String)> {
    it.map(|(p, ns)| {
        (
            match p {
                PrefixDeclaration::Default => String::new(),
                PrefixDeclaration::Named(n) => String::from_utf8_lossy(n).into_owned(),
            },
            String::from_utf8_lossy(ns.as_ref()).into_owned(),
        )
    })
    .collect()
}

struct Oracle<'a> {
    r: &'a Rendered,
    scopes: Vec<Scope>,
    idx: usize,
    /// after an expanded empty Start, the synthesized End is due
    pending_end: Option<usize>,
    /// declarations of skipped elements, with the close index of the skipped element
    leaked: Vec<(usize, Vec<(String, String)>)>,
    nontrivial: bool,
    skips: u32,
    skips_with_decl: u32,
    mid_skips: u32,
    checked: u32,
}

impl<'a> Oracle<'a> {
    /// Would a name with prefix `p`, used on element `id`, resolve differently if the scope of a
    /// skipped element had leaked?
    fn leak_visible(&self, id: usize, p: &str, right: &Res, attribute: bool) -> bool {
        for (close_idx, decls) in &self.leaked {
            for (dp, du) in decls {
                if dp != p || (attribute && p.is_empty()) {
                    continue;
                }
                // shadowed by an element opened after the skipped one on the path to `id`?
                let mut cur = Some(id);
                let mut shadowed = false;
                while let Some(c) = cur {
                    let e = &self.r.elems[c];
                    if e.open_idx > *close_idx {
                        if decls_of(e).iter().any(|(q, _)| q == p) {
                            shadowed = true;
                        }
                    } else {
                        break;
                    }
                    cur = e.parent;
                }
                if shadowed {
                    continue;
                }
                let leaked = if du.is_empty() {
                    if p.is_empty() {
                        Res::Unbound
                    } else {
                        Res::Unknown(p.to_string())
                    }
                } else {
                    Res::Bound(du.clone())
                };
                if &leaked != right {
                    return true;
                }
            }
        }
        false
    }
}

fn prefix_of(q: &str) -> &str {
    q.split_once(':').map(|x| x.0).unwrap_or("")
}

macro_rules! check_event {
    ($o:ident, $r:ident, $ev:expr, $resolved:expr) => {{
        let ev: &Event = $ev;
        let o: &mut Oracle = &mut $o;
        // which flat item is expected?
        let (want_kind, id_opt): (FlatKind, Option<usize>) = if let Some(id) = o.pending_end.take() {
            (FlatKind::End(id), Some(id))
        } else {
            if o.idx >= o.r.flat.len() {
                return Verdict::fail(format!("reader returned {:?} after the end of the document", ev));
            }
            let f = &o.r.flat[o.idx];
            o.idx += 1;
            let id = match f.kind {
                FlatKind::Start(i) | FlatKind::Empty(i) | FlatKind::End(i) => Some(i),
                _ => None,
            };
            (f.kind.clone(), id)
        };
        let kind_ok = match (&want_kind, ev) {
            (FlatKind::Start(_), Event::Start(_)) | (FlatKind::End(_), Event::End(_)) | (FlatKind::Text, Event::Text(_)) | (FlatKind::Comment, Event::Comment(_)) | (FlatKind::CData, Event::CData(_)) | (FlatKind::PI, Event::PI(_)) | (FlatKind::Decl, Event::Decl(_)) | (FlatKind::DocType, Event::DocType(_)) => true,
            (FlatKind::Empty(i), Event::Empty(_)) => {
                let _ = i;
                true
            }
            (FlatKind::Empty(i), Event::Start(_)) => {
                // expanded
                o.pending_end = Some(*i);
                true
            }
            _ => false,
        };
        if !kind_ok {
            return Verdict::fail(format!("expected {:?}, reader returned {:?}", want_kind, ev));
        }
        if let Some(id) = id_opt {
            let info = &o.r.elems[id];
            let scope = &o.scopes[id];
            o.checked += 1;
            let name = info.name.as_str();
            let want = want_res(scope, name, false);
            if o.leak_visible(id, prefix_of(name), &want, false) {
                o.nontrivial = true;
            }
            let got = got_res(&$r.resolve_element(QName(name.as_bytes())).0);
            if got != want {
                return Verdict::fail(format!("resolve_element({:?}) at {:?} of element #{}: expected {:?}, got {:?}", name, want_kind, id, want, got));
            }
            // the generic entry point: resolve(name, attribute = false) is resolve_element
            let got = got_res(&$r.resolve(QName(name.as_bytes()), false).0);
            if got != want {
                return Verdict::fail(format!("resolve({:?}, false) at {:?} of element #{}: expected {:?}, got {:?}", name, want_kind, id, want, got));
            }
            if let Some(res) = $resolved {
                let got = got_res(res);
                if got != want {
                    return Verdict::fail(format!("read_resolved_event at {:?} of element #{} <{}>: expected {:?}, got {:?}", want_kind, id, name, want, got));
                }
            }
            if !matches!(want_kind, FlatKind::End(_)) {
                for (k, _) in &info.attrs {
                    let want = want_res(scope, k, true);
                    if o.leak_visible(id, prefix_of(k), &want, true) {
                        o.nontrivial = true;
                    }
                    let got = got_res(&$r.resolve_attribute(QName(k.as_bytes())).0);
                    if got != want {
                        return Verdict::fail(format!("resolve_attribute({:?}) on element #{} <{}>: expected {:?}, got {:?}", k, id, name, want, got));
                    }
                    let got = got_res(&$r.resolve(QName(k.as_bytes()), true).0);
                    if got != want {
                        return Verdict::fail(format!("resolve({:?}, true) on element #{} <{}>: expected {:?}, got {:?}", k, id, name, want, got));
                    }
                }
                if let Event::Start(s) | Event::Empty(s) = ev {
                    let want_nil = info.attrs.iter().any(|(k, v)| {
                        let local = k.rsplit(':').next().unwrap_or("");
                        local == "nil" && k.contains(':') && want_res(scope, k, true) == Res::Bound(XSI.to_string()) && (v == "1" || v == "true")
                    });
                    let got_nil = s.attributes().has_nil(&$r);
                    if got_nil != want_nil {
                        return Verdict::fail(format!("has_nil on element #{} <{}> attrs {:?}: expected {}, got {}", id, name, info.attrs, want_nil, got_nil));
                    }
                }
            }
            let got_p: BTreeSet<(String, String)> = $r
                .prefixes()
                .map(|(p, ns)| {
                    (
                        match p {
                            PrefixDeclaration::Default => String::new(),
                            PrefixDeclaration::Named(n) => String::from_utf8_lossy(n).into_owned(),
                        },
                        String::from_utf8_lossy(ns.as_ref()).into_owned(),
                    )
                })
                .collect();
            let want_p = want_prefixes(scope);
            if got_p != want_p {
                return Verdict::fail(format!("prefixes() at {:?} of element #{} <{}>: expected {:?}, got {:?}", want_kind, id, name, want_p, got_p));
            }
        } else {
            if let Some(res) = $resolved {
                if got_res(res) != Res::Unbound {
                    return Verdict::fail(format!("read_resolved_event returned {:?} for a non-element event", res));
                }
            }
            // a text / comment / CDATA / PI / declaration / DOCTYPE event: the bindings in force are those
            // of the innermost element that is open around it (none at top level) - declarations of
            // elements that have ended before it no longer apply
            let j = o.idx - 1;
            let enclosing = o.r.elems.iter().enumerate().filter(|(_, e)| e.open_idx < j && j < e.close_idx).max_by_key(|(_, e)| e.depth).map(|(i, _)| i);
            let base: Scope = {
                let mut s = Scope::new();
                s.insert("xml".into(), XML_NS.into());
                s.insert("xmlns".into(), XMLNS_NS.into());
                s
            };
            let scope = match enclosing {
                Some(i) => &o.scopes[i],
                None => &base,
            };
            for probe in ["x", "p:x", "q:x", "i:x", "r:x", "xml:x"] {
                let want = want_res(scope, probe, false);
                let got = got_res(&$r.resolve_element(QName(probe.as_bytes())).0);
                if got != want {
                    return Verdict::fail(format!("resolve_element({:?}) at the {:?} event (flat item {}) inside element {:?}: expected {:?}, got {:?}", probe, want_kind, j, enclosing.map(|i| o.r.elems[i].name.clone()), want, got));
                }
            }
            let got_p: BTreeSet<(String, String)> = $r
                .prefixes()
                .map(|(p, ns)| {
                    (
                        match p {
                            PrefixDeclaration::Default => String::new(),
                            PrefixDeclaration::Named(n) => String::from_utf8_lossy(n).into_owned(),
                        },
                        String::from_utf8_lossy(ns.as_ref()).into_owned(),
                    )
                })
                .collect();
            let want_p = want_prefixes(scope);
            if got_p != want_p {
                return Verdict::fail(format!("prefixes() at the {:?} event (flat item {}) inside element {:?}: expected {:?}, got {:?}", want_kind, j, enclosing.map(|i| o.r.elems[i].name.clone()), want_p, got_p));
            }
            o.checked += 1;
        }
        (want_kind, id_opt)
    }};
}

pub fn check(c: &Case) -> Verdict {
    let rendered = render(&c.doc);
    let data = rendered.text.clone();
    let mut o = Oracle { r: &rendered, scopes: scopes(&rendered), idx: 0, pending_end: None, leaked: vec![], nontrivial: false, skips: 0, skips_with_decl: 0, mid_skips: 0, checked: 0 };
    let cfg = if c.expand_empty { EXPAND_EMPTY | CHECK_END_NAMES | TRIM_NAMES } else { CHECK_END_NAMES | TRIM_NAMES };
    let cuts = crate::sources::cuts_fixed(c.piece as usize, data.len());
    let mut call = 0usize;
    let bound = 2 * data.len() + 8;
    let mut open: Vec<usize> = vec![];
    let mut skip_rest = false;

    macro_rules! drive {
        ($r:ident, $skip_name:ident, $read_plain:expr, $read_resolved:expr, $skip:expr, $skip_text:expr) => {{
            loop {
                let ch = c.choices.get(call).copied().unwrap_or(0);
                call += 1;
                if call > bound {
                    return Verdict::fail("no Eof within the call bound");
                }
                let (kind, id) = if ch & 1 == 1 {
                    match $read_resolved {
                        Ok((res, ev)) => {
                            if matches!(ev, Event::Eof) {
                                // every element has ended: no declaration applies any more
                                let left = $r.prefixes().count();
                                if left != 0 {
                                    return Verdict::fail(format!("at Eof prefixes() still lists {} binding(s) | doc {:?}", left, B::show(&data)));
                                }
                                for probe in ["p:x", "q:x", "i:x", "r:x"] {
                                    let got = got_res(&$r.resolve_element(QName(probe.as_bytes())).0);
                                    if !matches!(got, Res::Unknown(_)) {
                                        return Verdict::fail(format!("at Eof resolve_element({:?}) gives {:?} | doc {:?}", probe, got, B::show(&data)));
                                    }
                                }
                                break;
                            }
                            check_event!(o, $r, &ev, Some(&res))
                        }
                        Err(e) => return Verdict::fail(format!("read error {:?} on a well-formed document {:?}", e, B::show(&data))),
                    }
                } else {
                    match $read_plain {
                        Ok(ev) => {
                            if matches!(ev, Event::Eof) {
                                // every element has ended: no declaration applies any more
                                let left = $r.prefixes().count();
                                if left != 0 {
                                    return Verdict::fail(format!("at Eof prefixes() still lists {} binding(s) | doc {:?}", left, B::show(&data)));
                                }
                                for probe in ["p:x", "q:x", "i:x", "r:x"] {
                                    let got = got_res(&$r.resolve_element(QName(probe.as_bytes())).0);
                                    if !matches!(got, Res::Unknown(_)) {
                                        return Verdict::fail(format!("at Eof resolve_element({:?}) gives {:?} | doc {:?}", probe, got, B::show(&data)));
                                    }
                                }
                                break;
                            }
                            check_event!(o, $r, &ev, None::<&ResolveResult>)
                        }
                        Err(e) => return Verdict::fail(format!("read error {:?} on a well-formed document {:?}", e, B::show(&data))),
                    }
                };
                let action = (ch >> 1) & 3;
                let expanded = matches!(kind, FlatKind::Empty(_)) && o.pending_end.is_some();
                let is_open = matches!(kind, FlatKind::Start(_)) || expanded;
                match (&kind, id) {
                    (_, Some(id)) if is_open => {
                        if action >= 2 {
                            let name = rendered.elems[id].name.clone();
                            let $skip_name: &str = &name;
                            let res: Result<(), String> = if action == 3 { $skip_text } else { $skip };
                            if let Err(m) = res {
                                return Verdict::fail(format!("skipping <{}> failed: {} | doc {:?}", name, m, B::show(&data)));
                            }
                            // the call consumed the end tag: the element HAS ended, its declarations (and those of
                            // anything inside it) no longer apply - also before the next read
                            {
                                let got_p = listed($r.prefixes());
                                let want_p = prefixes_after_end(&o, id);
                                if got_p != want_p {
                                    return Verdict::fail(format!("directly after skipping <{}> (element #{}) prefixes() lists {:?}, expected {:?} | doc {:?}", name, id, got_p, want_p, B::show(&data)));
                                }
                            }
                            o.skips += 1;
                            let d = decls_of(&rendered.elems[id]);
                            if !d.is_empty() {
                                o.skips_with_decl += 1;
                                o.leaked.push((rendered.elems[id].close_idx, d));
                            }
                            if expanded {
                                o.pending_end = None;
                            } else {
                                o.idx = rendered.elems[id].close_idx + 1;
                            }
                        } else {
                            open.push(id);
                        }
                    }
                    (FlatKind::End(_), _) => {
                        open.pop();
                        if action >= 2 {
                            skip_rest = true;
                        }
                    }
                    _ => {
                        if action >= 2 {
                            skip_rest = true;
                        }
                    }
                }
                if skip_rest {
                    skip_rest = false;
                    // skip the REST of the innermost open element (called in the middle of its content)
                    if let Some(id) = open.pop() {
                        let name = rendered.elems[id].name.clone();
                        let $skip_name: &str = &name;
                        let res: Result<(), String> = if action == 3 { $skip_text } else { $skip };
                        if let Err(m) = res {
                            return Verdict::fail(format!("skipping the rest of <{}> failed: {} | doc {:?}", name, m, B::show(&data)));
                        }
                        {
                            let got_p = listed($r.prefixes());
                            let want_p = prefixes_after_end(&o, id);
                            if got_p != want_p {
                                return Verdict::fail(format!("directly after skipping the rest of <{}> (element #{}) prefixes() lists {:?}, expected {:?} | doc {:?}", name, id, got_p, want_p, B::show(&data)));
                            }
                        }
                        o.skips += 1;
                        o.mid_skips += 1;
                        let d = decls_of(&rendered.elems[id]);
                        if !d.is_empty() {
                            o.skips_with_decl += 1;
                            o.leaked.push((rendered.elems[id].close_idx, d));
                        }
                        o.idx = rendered.elems[id].close_idx + 1;
                    }
                }
            }
        }};
    }

    match c.source {
        0 => {
            let mut r = NsReader::from_reader(&data[..]);
            apply_cfg(r.config_mut(), cfg);
            // before some calls the reader is replaced by a clone of itself: a copy of a reader carries
            // the same open scopes and bindings, everything after it must be judged the same
            let every = 2 + data.len() % 5;
            drive!(
                r,
                n,
                {
                    if call % every == 1 {
                        let copy = r.clone();
                        r = copy;
                    }
                    r.read_event()
                },
                {
                    if call % every == 1 {
                        let copy = r.clone();
                        r = copy;
                    }
                    r.read_resolved_event().map(|(res, e)| (res_back(own_res(&res)), e))
                }, r.read_to_end(QName(n.as_bytes())).map(|_| ()).map_err(|e| format!("{:?}", e)), r.read_text(QName(n.as_bytes())).map(|_| ()).map_err(|e| format!("{:?}", e)));
        }
        1 => {
            let mut r = NsReader::from_reader(ChunkedBufRead::new(&data, cuts));
            apply_cfg(r.config_mut(), cfg);
            let mut buf = Vec::new();
            let mut buf2 = Vec::new();
            drive!(
                r,
                n,
                {
                    buf.clear();
                    r.read_event_into(&mut buf).map(|e| e.into_owned())
                },
                {
                    buf.clear();
                    r.read_resolved_event_into(&mut buf).map(|(res, e)| (own_res(&res), e.into_owned())).map(|(res, e)| (res_back(res), e))
                },
                r.read_to_end_into(QName(n.as_bytes()), &mut buf2).map(|_| ()).map_err(|e| format!("{:?}", e)),
                r.read_to_end_into(QName(n.as_bytes()), &mut buf2).map(|_| ()).map_err(|e| format!("{:?}", e))
            );
        }
        _ => {
            let mut r = NsReader::from_reader(ChunkedAsync::new(&data, cuts, vec![1, 0, 1]));
            apply_cfg(r.config_mut(), cfg);
            let mut buf = Vec::new();
            let mut buf2 = Vec::new();
            drive!(
                r,
                n,
                {
                    buf.clear();
                    block_on(r.read_event_into_async(&mut buf)).map(|e| e.into_owned())
                },
                {
                    buf.clear();
                    block_on(r.read_resolved_event_into_async(&mut buf)).map(|(res, e)| (own_res(&res), e.into_owned())).map(|(res, e)| (res_back(res), e))
                },
                block_on(r.read_to_end_into_async(QName(n.as_bytes()), &mut buf2)).map(|_| ()).map_err(|e| format!("{:?}", e)),
                block_on(r.read_to_end_into_async(QName(n.as_bytes()), &mut buf2)).map(|_| ()).map_err(|e| format!("{:?}", e))
            );
        }
    }
    if o.idx != rendered.flat.len() {
        return Verdict::fail(format!("Eof after {} of {} expected events", o.idx, rendered.flat.len()));
    }
    let mut v = Verdict::pass(o.nontrivial);
    if o.skips > 0 {
        v.classes.push("has-skip");
    }
    if o.skips_with_decl > 0 {
        v.classes.push("skipped-element-with-declaration");
    }
    if o.mid_skips > 0 {
        v.classes.push("skip-called-in-the-middle-of-an-element");
    }
    v.classes.push(["slice", "buffered", "async"][c.source.min(2) as usize]);
    if rendered.elems.iter().any(|e| decls_of(e).iter().any(|(_, u)| u.is_empty())) {
        v.classes.push("has-undeclaration");
    }
    v
}

/// owned copy of a ResolveResult (the borrowed one is tied to the reader)
#[derive(Clone)]
enum OwnedRes {
    Unbound,
    Bound(Vec<u8>),
    Unknown(Vec<u8>),
}
fn own_res(r: &ResolveResult) -> OwnedRes {
    match r {
        ResolveResult::Unbound => OwnedRes::Unbound,
        ResolveResult::Bound(ns) => OwnedRes::Bound(ns.as_ref().to_vec()),
        ResolveResult::Unknown(p) => OwnedRes::Unknown(p.clone()),
    }
}
fn res_back(r: OwnedRes) -> ResolveResult<'static> {
    match r {
        OwnedRes::Unbound => ResolveResult::Unbound,
        OwnedRes::Bound(v) => ResolveResult::Bound(quick_xml::name::Namespace(Box::leak(v.into_boxed_slice()))),
        OwnedRes::Unknown(p) => ResolveResult::Unknown(p),
    }
}

/// A chain nested `depth` deep under an element that declares a prefix and a default namespace:
/// the declarations must still apply at the bottom and on the way up (levels beyond u8 / u16).
#[derive(Clone, Debug, Serialize, Deserialize, PartialEq)]
pub struct DeepCase {
    pub depth: u32,
    /// every `redeclare`-th level re-declares the prefix with another URI for its own subtree (0 = never)
    pub redeclare: u32,
}

pub fn check_deep(c: &DeepCase) -> Verdict {
    use quick_xml::name::ResolveResult;
    let mut doc = String::from("<r xmlns:p='u1' xmlns='d1'>");
    for k in 0..c.depth {
        if c.redeclare > 0 && k % c.redeclare == c.redeclare - 1 {
            doc.push_str("<b xmlns:p='u2'>");
        } else {
            doc.push_str("<b>");
        }
    }
    doc.push_str("<p:c p:k='1' k='2'/>");
    for _ in 0..c.depth {
        doc.push_str("</b>");
    }
    doc.push_str("<p:z/></r>");
    let mut r = NsReader::from_str(&doc);
    // URI of p at the bottom: the innermost re-declaration, if any level has one
    let bottom_p = if c.redeclare > 0 && c.depth >= c.redeclare { "u2" } else { "u1" };
    let show = |x: &ResolveResult| match x {
        ResolveResult::Bound(n) => format!("Bound({})", String::from_utf8_lossy(n.as_ref())),
        ResolveResult::Unbound => "Unbound".to_string(),
        ResolveResult::Unknown(p) => format!("Unknown({})", String::from_utf8_lossy(p)),
    };
    let mut seen_bottom = false;
    let mut seen_after = false;
    for _ in 0..(2 * c.depth as usize + 10) {
        match r.read_resolved_event() {
            Ok((res, Event::Empty(e))) => {
                let name = e.name();
                let want = if name.as_ref() == b"p:c" {
                    seen_bottom = true;
                    format!("Bound({})", bottom_p)
                } else {
                    seen_after = true;
                    "Bound(u1)".to_string()
                };
                if show(&res) != want {
                    return Verdict::fail(format!("depth {} (re-declaration every {}): <{}> resolves to {}, expected {}", c.depth, c.redeclare, String::from_utf8_lossy(name.as_ref()), show(&res), want));
                }
                if name.as_ref() == b"p:c" {
                    let a = show(&r.resolve_attribute(QName(b"p:k")).0);
                    let u = show(&r.resolve_attribute(QName(b"k")).0);
                    let d = show(&r.resolve_element(QName(b"x")).0);
                    if a != format!("Bound({})", bottom_p) || u != "Unbound" || d != "Bound(d1)" {
                        return Verdict::fail(format!("depth {}: at the bottom p:k -> {}, k -> {}, unprefixed element -> {}", c.depth, a, u, d));
                    }
                    let n = r.prefixes().count();
                    if n != 2 {
                        return Verdict::fail(format!("depth {}: prefixes() lists {} bindings at the bottom, expected 2 (default and p)", c.depth, n));
                    }
                }
            }
            Ok((_, Event::Eof)) => break,
            Ok(_) => {}
            Err(e) => return Verdict::fail(format!("depth {}: error {:?}", c.depth, e)),
        }
    }
    if !seen_bottom || !seen_after {
        return Verdict::fail(format!("depth {}: the document was not read to its end", c.depth));
    }
    Verdict::pass(true).class(if c.depth > 65536 { "deeper-than-65536" } else if c.depth > 255 { "deeper-than-255" } else { "shallow-chain" })
}


// ---------------------------------------------------------------------------------------------
// end tags that close nothing, allowed by the configuration (allow_unmatched_ends): the read is
// error-free, so the statement applies - such a tag ends no scope; the reserved prefixes stay
// bound, later declarations work, the listing agrees

#[derive(Clone, Debug, Serialize, Deserialize, PartialEq)]
pub struct StrayCase {
    pub doc: Doc,
    /// names of the stray end tags in front of the document, between it and the probe element, after
    pub before: Vec<String>,
    pub between: Vec<String>,
    pub after: Vec<String>,
    /// 0 slice, 1 buffered, 2 async
    pub source: u8,
}

pub fn check_stray(c: &StrayCase) -> Verdict {
    let rendered = render(&c.doc);
    let mut data: Vec<u8> = vec![];
    for n in &c.before {
        data.extend_from_slice(format!("</{}>", n).as_bytes());
    }
    data.extend_from_slice(&rendered.text);
    for n in &c.between {
        data.extend_from_slice(format!("</{}>", n).as_bytes());
    }
    data.extend_from_slice(b"<zz:probe xml:lang='en' zz:a='1' xmlns:zz='urn:probe' a='2'/>");
    for n in &c.after {
        data.extend_from_slice(format!("</{}>", n).as_bytes());
    }
    let cfg = ALLOW_UNMATCHED | CHECK_END_NAMES | TRIM_NAMES;
    let bound = 2 * data.len() + 8;
    let mut depth = 0i64;
    let mut probe_seen = false;
    let mut strays = 0;
    macro_rules! drive {
        ($r:ident, $read:expr) => {{
            for call in 0..=bound {
                if call == bound {
                    return Verdict::fail("no Eof within the call bound");
                }
                let (res, ev) = match $read {
                    Ok(x) => x,
                    Err(e) => return Verdict::fail(format!("read error {:?} although unmatched end tags are allowed | doc {:?}", e, B::show(&data))),
                };
                // the listing can always be taken, whichever way (collect() asks for the size hint)
                let (lo, hi) = $r.prefixes().size_hint();
                let all = listed($r.prefixes().collect::<Vec<_>>().into_iter());
                if lo > all.len() || hi.map_or(false, |h| h < all.len()) {
                    return Verdict::fail(format!("prefixes().size_hint() = ({}, {:?}) but {} bindings are listed | doc {:?}", lo, hi, all.len(), B::show(&data)));
                }
                match &ev {
                    Event::Eof => {
                        if !all.is_empty() {
                            return Verdict::fail(format!("at Eof prefixes() still lists {:?} | doc {:?}", all, B::show(&data)));
                        }
                        break;
                    }
                    Event::Start(_) => depth += 1,
                    Event::End(e) => {
                        if depth == 0 {
                            // closes nothing: judged in the outermost scope, where only xml / xmlns are bound
                            strays += 1;
                            let name = String::from_utf8_lossy(e.name().as_ref()).into_owned();
                            let want = match name.split_once(':') {
                                Some(("xml", _)) => Res::Bound(XML_NS.into()),
                                Some(("xmlns", _)) => Res::Bound(XMLNS_NS.into()),
                                Some((p, _)) => Res::Unknown(p.to_string()),
                                None => Res::Unbound,
                            };
                            let direct = got_res(&$r.resolve_element(e.name()).0);
                            if got_res(&res) != want || direct != want {
                                return Verdict::fail(format!("end tag </{}> that closes nothing resolves to {:?} / {:?}, expected {:?} | doc {:?}", name, got_res(&res), direct, want, B::show(&data)));
                            }
                            if !all.is_empty() {
                                return Verdict::fail(format!("at the end tag </{}> that closes nothing prefixes() lists {:?} | doc {:?}", name, all, B::show(&data)));
                            }
                        } else {
                            depth -= 1;
                        }
                    }
                    Event::Empty(e) if e.name().as_ref() == b"zz:probe" => {
                        probe_seen = true;
                        let got = (got_res(&res), got_res(&$r.resolve_attribute(QName(b"xml:lang")).0), got_res(&$r.resolve_attribute(QName(b"zz:a")).0), got_res(&$r.resolve_attribute(QName(b"a")).0), got_res(&$r.resolve_element(QName(b"x")).0), got_res(&$r.resolve_element(QName(b"p:x")).0));
                        let want = (Res::Bound("urn:probe".into()), Res::Bound(XML_NS.into()), Res::Bound("urn:probe".into()), Res::Unbound, Res::Unbound, Res::Unknown("p".into()));
                        if got != want {
                            return Verdict::fail(format!("at the probe element after {} end tag(s) that close nothing: (element, xml:lang, zz:a, a, x, p:x) resolve to {:?}, expected {:?} | doc {:?}", strays, got, want, B::show(&data)));
                        }
                        let want_p: BTreeSet<(String, String)> = [("zz".to_string(), "urn:probe".to_string())].into_iter().collect();
                        if all != want_p {
                            return Verdict::fail(format!("at the probe element prefixes() lists {:?}, expected {:?} | doc {:?}", all, want_p, B::show(&data)));
                        }
                    }
                    _ => {}
                }
            }
        }};
    }
    let cuts = crate::sources::cuts_fixed(3, data.len());
    match c.source {
        0 => {
            let mut r = NsReader::from_reader(&data[..]);
            apply_cfg(r.config_mut(), cfg);
            drive!(r, r.read_resolved_event().map(|(res, e)| (res_back(own_res(&res)), e)));
        }
        1 => {
            let mut r = NsReader::from_reader(ChunkedBufRead::new(&data, cuts));
            apply_cfg(r.config_mut(), cfg);
            let mut buf = Vec::new();
            drive!(r, {
                buf.clear();
                r.read_resolved_event_into(&mut buf).map(|(res, e)| (own_res(&res), e.into_owned())).map(|(res, e)| (res_back(res), e))
            });
        }
        _ => {
            let mut r = NsReader::from_reader(ChunkedAsync::new(&data, cuts, vec![1, 0, 1]));
            apply_cfg(r.config_mut(), cfg);
            let mut buf = Vec::new();
            drive!(r, {
                buf.clear();
                block_on(r.read_resolved_event_into_async(&mut buf)).map(|(res, e)| (own_res(&res), e.into_owned())).map(|(res, e)| (res_back(res), e))
            });
        }
    }
    if !probe_seen {
        return Verdict::fail(format!("the probe element was not reported | doc {:?}", B::show(&data)));
    }
    Verdict::pass(strays > 0).class_if(!c.before.is_empty(), "stray-end-tag-before-the-first-element").class_if(strays >= 2, ">=2-stray-end-tags").class(["slice", "buffered", "async"][c.source.min(2) as usize])
}

fn run(ctx: &Ctx) {
    ctx.run_regress::<Case, _>(check);
    ctx.run_regress::<StrayCase, _>(check_stray);
    let depths: Vec<u32> = vec![1, 2, 31, 32, 33, 127, 128, 129, 255, 256, 257, 1000, 32767, 32768, 32769, 65535, 65536, 65537, 70001, ctx.tier.pick(100_000, 300_000)];
    ctx.run_indexed("very-deep-chains", depths.len() as u64 * 4, |i| Some(DeepCase { depth: depths[(i / 4) as usize], redeclare: [0u32, 1, 7, 256][(i % 4) as usize] }), check_deep);
    let p = DocParams::namespaces();
    // small trees x all skip histories
    let nsmall = ctx.tier.pick(6000usize, 60_000);
    let small_params = DocParams { max_depth: 3, max_children: 3, ..p.clone() };
    let docs: Vec<Doc> = sample_strategy(&doc_strategy(&small_params), ctx.seed ^ 0x05, nsmall * 3).into_iter().filter(|d| {
        let r = render(d);
        let starts = r.flat.iter().filter(|f| matches!(f.kind, FlatKind::Start(_))).count();
        starts >= 2 && starts <= 6
    }).take(nsmall).collect();
    ctx.note_stage("small-trees-sampled", serde_json::json!({"documents": docs.len()}));
    ctx.run_groups(
        "small-trees-x-all-skip-histories",
        docs.len() as u64 * 3,
        false,
        |i| {
            let d = &docs[(i / 3) as usize];
            let source = (i % 3) as u8;
            let r = render(d);
            // the read call index of every Start when nothing is skipped = its flat index; with
            // skips the indices shift, so the history is expressed per Start in document order
            let starts: Vec<usize> = r.flat.iter().enumerate().filter(|(_, f)| matches!(f.kind, FlatKind::Start(_))).map(|(k, _)| k).collect();
            let k = starts.len();
            let mut out = vec![];
            for code in 0..3u32.pow(k as u32) {
                // simulate to lay the choices out per actual call
                let mut choices = vec![];
                let mut idx = 0usize;
                let mut sidx = 0usize;
                let mut cc = code;
                let mut digits = vec![0u8; k];
                for dgt in digits.iter_mut() {
                    *dgt = (cc % 3) as u8;
                    cc /= 3;
                }
                while idx < r.flat.len() {
                    let f = &r.flat[idx];
                    let resolving = (choices.len() % 2) as u8;
                    if let FlatKind::Start(id) = f.kind {
                        while sidx < k && starts[sidx] < idx {
                            sidx += 1;
                        }
                        let act = digits[sidx.min(k - 1)];
                        choices.push(resolving | ((act + if act > 0 { 1 } else { 0 }) << 1));
                        if act > 0 {
                            idx = r.elems[id].close_idx + 1;
                            continue;
                        }
                    } else {
                        choices.push(resolving);
                    }
                    idx += 1;
                }
                out.push(Case { doc: d.clone(), choices, source, piece: [0, 1, 3][(i % 3) as usize], expand_empty: code % 2 == 1 });
            }
            out
        },
        check,
    );
    ctx.run_groups(
        "small-trees-x-skip-rest-at-every-event",
        docs.len() as u64 * 3,
        false,
        |i| {
            let d = &docs[(i / 3) as usize];
            let r = render(d);
            let mut out = vec![];
            // read plainly up to event k, then skip the rest of the innermost open element; go on
            // reading; a second skip-rest later at event j
            for k in 0..r.flat.len() {
                for act in [2u8, 3] {
                    let mut choices: Vec<u8> = (0..k).map(|x| (x % 2) as u8).collect();
                    choices.push((k % 2) as u8 | (act << 1));
                    out.push(Case { doc: d.clone(), choices: choices.clone(), source: (i % 3) as u8, piece: [0, 1, 3][(i % 3) as usize], expand_empty: k % 2 == 1 });
                    for j in 1..4usize {
                        let mut c2 = choices.clone();
                        c2.extend((0..j).map(|x| (x % 2) as u8));
                        c2.push(2 << 1);
                        out.push(Case { doc: d.clone(), choices: c2, source: (i % 3) as u8, piece: 1, expand_empty: false });
                    }
                }
            }
            out
        },
        check,
    );
    let strat = move || Box::new((doc_strategy(&p), prop::collection::vec(0u8..8, 0..60), 0u8..3, 0u8..6, any::<bool>()).prop_map(|(doc, choices, source, piece, expand_empty)| Case { doc, choices, source, piece, expand_empty }));
    ctx.run_proptest_with("documents-x-random-histories", ctx.tier.pick(500_000, 5_000_000), strat, check);
    let p2 = DocParams::namespaces();
    let stray_name = || prop::sample::select(vec!["a", "p:a", "q:b", "xml:a", "zz:probe", "r", "i:x", "xmlns:a"]).prop_map(|s| s.to_string());
    let stray = move || Box::new((doc_strategy(&p2), prop::collection::vec(stray_name(), 0..3), prop::collection::vec(stray_name(), 0..3), prop::collection::vec(stray_name(), 0..2), 0u8..3).prop_map(|(doc, before, between, after, source)| StrayCase { doc, before, between, after, source }));
    ctx.run_proptest_with("end-tags-that-close-nothing-around-documents", ctx.tier.pick(200_000, 2_000_000), stray, check_stray);
}

fn replay(_stage: &str, case: &Value) -> Result<Verdict, String> {
    if case.get("between").is_some() {
        let c: StrayCase = serde_json::from_value(case.clone()).map_err(|e| e.to_string())?;
        return Ok(check_stray(&c));
    }
    if case.get("depth").is_some() {
        let c: DeepCase = serde_json::from_value(case.clone()).map_err(|e| e.to_string())?;
        return Ok(check_deep(&c));
    }
    let c: Case = serde_json::from_value(case.clone()).map_err(|e| e.to_string())?;
    Ok(check(&c))
}
