//! C19 (d): serde indentation — filled in together with the serde type family.
use crate::engine::{Ctx, Verdict};
use serde_json::Value;

pub fn run(_ctx: &Ctx) {}

pub fn replay(_case: &Value) -> Result<Verdict, String> {
    Err("serde stage not built".into())
}
