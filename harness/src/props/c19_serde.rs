//! C19 (d): the serde serializer's indentation adds only whitespace between markup, so that
//! indented and plain serializations deserialize to equal values.

use crate::engine::{Ctx, Verdict};
use crate::refxml::{self, Tok};
use crate::types::*;
use proptest::prelude::*;
use serde::{Deserialize, Serialize};
use serde_json::Value;

#[derive(Clone, Debug, Serialize, Deserialize, PartialEq)]
pub struct Case {
    pub value: Val,
    pub level: u8,
    pub indent: (char, u8),
    pub expand_empty: bool,
}

pub fn check(c: &Case) -> Verdict {
    let plain_o = SerOpts { level: c.level % 3, indent: None, expand_empty: c.expand_empty, root: None };
    let ind_o = SerOpts { indent: Some(c.indent), ..plain_o.clone() };
    let plain = match c.value.serialize_with(&plain_o) {
        Ok(x) => x,
        Err(e) => return Verdict::fail(format!("plain serialization failed: {}", e)),
    };
    let ind = match c.value.serialize_with(&ind_o) {
        Ok(x) => x,
        Err(e) => return Verdict::fail(format!("indented serialization failed: {} (plain succeeded: {:?})", e, plain)),
    };
    let insertions = match indent_rule(&plain, &ind, c.indent.0) {
        Ok(n) => n,
        Err(m) => return Verdict::fail(m),
    };
    let ty = c.value.ty();
    let vp = ty.from_str(&plain);
    let vi = ty.from_str(&ind);
    match (vp, vi) {
        (Ok(x), Ok(y)) if x == y && x == c.value => {}
        (x, y) => return Verdict::fail(format!("plain {:?} -> {:?}; indented {:?} -> {:?}; value {:?}", plain, x.map_err(|e| e.to_string()), ind, y.map_err(|e| e.to_string()), c.value)),
    }
    let mixed = matches!(&c.value, Val::MixedList(m) if m.items.iter().any(|i| matches!(i, Choice::Text(_))) && m.items.len() >= 2);
    let mut v = Verdict::pass(insertions > 0);
    v.classes.push("serde");
    if mixed {
        v.classes.push("serde-mixed-text-and-elements");
    }
    v
}


/// byte level: same tokens; the indented document may only have extra blank text made of a
/// newline and indent characters, directly before markup that does not follow text
pub fn indent_rule(plain: &str, ind: &str, indent_char: char) -> Result<u32, String> {
    let tp = refxml::lex(plain.as_bytes());
    let ti = refxml::lex(ind.as_bytes());
    let pb = plain.as_bytes();
    let ib = ind.as_bytes();
    let (mut a, mut b) = (0usize, 0usize);
    let mut insertions = 0;
    let mut after_text = false;
    while b < ti.len() {
        let tok_i = &ib[ti[b].start..ti[b].end];
        if a < tp.len() && &pb[tp[a].start..tp[a].end] == tok_i {
            after_text = matches!(tp[a].tok, Tok::Text(_) | Tok::CData(_));
            a += 1;
            b += 1;
            continue;
        }
        let is_indent = matches!(ti[b].tok, Tok::Text(_)) && tok_i.first() == Some(&b'\n') && tok_i[1..].iter().all(|x| *x == indent_char as u8);
        let next_is_markup = ti.get(b + 1).map_or(false, |l| !matches!(l.tok, Tok::Text(_) | Tok::CData(_)));
        if is_indent && next_is_markup && !after_text {
            insertions += 1;
            b += 1;
            continue;
        }
        return Err(format!("indented output differs from the plain output by more than newline+indent before markup (token {:?}{}): plain {:?} | indented {:?}", String::from_utf8_lossy(tok_i), if after_text { ", directly after text" } else { "" }, plain, ind));
    }
    if a != tp.len() {
        return Err(format!("indented output lacks tokens of the plain output: plain {:?} | indented {:?}", plain, ind));
    }
    Ok(insertions)
}

// values outside the round-trippable family (hand-written Serialize over a dynamic value: `$text` /
// `$value` fields next to empty sequences, tuples with units, options, maps): only the byte-level rule
#[derive(Clone, Debug, Serialize, Deserialize, PartialEq)]
pub struct DynCase {
    pub dynamic: crate::dynval::Dyn,
    pub level: u8,
    pub indent: (char, u8),
    pub expand_empty: bool,
}

pub fn check_dyn(c: &DynCase) -> Verdict {
    let plain_o = SerOpts { level: c.level % 3, indent: None, expand_empty: c.expand_empty, root: Some("root".to_string()) };
    let ind_o = SerOpts { indent: Some(c.indent), ..plain_o.clone() };
    let plain = ser(&crate::dynval::DynXml(&c.dynamic), &plain_o);
    let ind = ser(&crate::dynval::DynXml(&c.dynamic), &ind_o);
    let (plain, ind) = match (plain, ind) {
        (Ok(p), Ok(i)) => (p, i),
        (Err(_), Err(_)) => return Verdict::excluded("value-rejected-by-the-serializer"),
        (p, i) => return Verdict::fail(format!("indentation decides whether the value can be serialized: plain {:?}, indented {:?} | value {:?}", p.map_err(|e| e.to_string()), i.map_err(|e| e.to_string()), c.dynamic)),
    };
    match indent_rule(&plain, &ind, c.indent.0) {
        Ok(n) => Verdict::pass(n > 0).class("serde-dynamic-value"),
        Err(m) => {
            if c.dynamic.has_empty_sequence_item() {
                // finding F19: an item of an element list that is itself an empty sequence writes nothing,
                // yet the list asks for an indent after it
                let mut v = Verdict::pass(true).class("serde-dynamic-value");
                v.known.push(F19);
                return v;
            }
            Verdict::fail(format!("{} | value {:?}", m, c.dynamic))
        }
    }
}
pub const F19: &str = "F19-empty-sequence-as-item-of-an-element-list-switches-indentation-on";

pub fn run(ctx: &Ctx) {
    let strat = || {
        Box::new((prop_oneof![2 => any_val(), 1 => val_of(Ty::MixedList), 1 => val_of(Ty::ChoiceHolder)], 0u8..3, (prop::sample::select(vec![' ', '\t']), 0u8..6), any::<bool>()).prop_map(|(value, level, indent, expand_empty)| Case { value, level, indent, expand_empty }))
    };
    ctx.run_proptest_with("serde-indentation", ctx.tier.pick(400_000, 5_000_000), strat, check);
    let dstrat = || Box::new((crate::dynval::dyn_strategy(), 0u8..3, (prop::sample::select(vec![' ', '\t']), 0u8..6), any::<bool>()).prop_map(|(dynamic, level, indent, expand_empty)| DynCase { dynamic, level, indent, expand_empty }));
    ctx.run_proptest_with("serde-indentation-of-dynamic-values", ctx.tier.pick(400_000, 5_000_000), dstrat, check_dyn);
}

pub fn replay(case: &Value) -> Result<Verdict, String> {
    if case.get("dynamic").is_some() {
        let c: DynCase = serde_json::from_value(case.clone()).map_err(|e| e.to_string())?;
        return Ok(check_dyn(&c));
    }
    let c: Case = serde_json::from_value(case.clone()).map_err(|e| e.to_string())?;
    Ok(check(&c))
}
