//! C10 — escaping is safe and unescaping is its exact inverse.

use super::PropInfo;
use crate::engine::{Ctx, Verdict};
use proptest::prelude::*;
use quick_xml::escape::{escape, minimal_escape, partial_escape, unescape, unescape_with};
use serde::{Deserialize, Serialize};
use serde_json::Value;
use std::borrow::Cow;

#[derive(Clone, Debug, Serialize, Deserialize, PartialEq)]
pub enum Case {
    /// arbitrary string: escape/unescape round trip, and unescape(s) against the reference
    Str(String),
    /// numeric character reference: code point and spelling (0 decimal, 1 lower hex, 2 upper hex,
    /// 3 decimal with leading zeros, 4 hex with leading zeros)
    CodePoint(u32, u8),
}

pub fn info() -> PropInfo {
    PropInfo {
        id: "C10",
        run,
        replay,
        rule: "cases = strings and numeric character references. Enumerated: every string up to length N over {< > & ' \" # x ; 0 9 a A e-acute space}; ALL code points 0..0x110000 and 0x100 beyond in five spellings; a table of malformed references; generated: proptest Unicode strings rich in specials and reference look-alikes. Oracles: unescape(f(s)) == s for f in escape/partial_escape/minimal_escape, f(s) contains none of the characters that level removes and no '&' that does not start one of the five entities or a character reference, a string without '&' unescapes to itself borrowed, unescape(s) for arbitrary s equals an independent reference implementation (value or error), valid non-zero scalar -> exactly that char, everything else -> Err. Non-trivial = the string contains at least one of < > & ' \" / the code point is a valid scalar. An offset sweep places every special / reference form after 0..=130 plain bytes (ASCII or two-byte characters) and before 0..=40 more. Every reference body of up to 5 characters over {0,1,9,a,F,x,X,+,-,blank,_} after `&#` and after `&#x` is enumerated against the reference unescaper, and every upper/lower-case spelling of the five predefined names.",
        assumptions: &["built without the escape-html feature: the entity set is the five XML entities", "only a lowercase 'x' introduces a hexadecimal reference (XML)"],
        level: "exploration",
        variants: &["full", "html"],
    }
}

/// Independent reference: Ok(unescaped) or Err(()).
pub fn ref_unescape(s: &str) -> Result<String, ()> {
    ref_unescape_with(s, &[])
}

/// custom entities used by the resolver stage: replacement texts of different lengths (also
/// empty, also longer than the reference, also containing markup characters)
pub const CUSTOM: &[(&str, &str)] = &[("e", "V&<"), ("z", ""), ("x", "y"), ("long", "a replacement text that is longer than its name; &amp; untouched"), ("a", "\u{e9}")];

/// the same with a table of custom entities consulted before the predefined ones
pub fn ref_unescape_with(s: &str, custom: &[(&str, &str)]) -> Result<String, ()> {
    ref_unescape_full(s, custom, None)
}

/// `catch_all`: a resolver that answers EVERY name it is asked about with this text. Character
/// references are not its business (documented: they cannot be overridden), whatever it would say.
pub fn ref_unescape_full(s: &str, custom: &[(&str, &str)], catch_all: Option<&str>) -> Result<String, ()> {
    let cs: Vec<char> = s.chars().collect();
    let mut out = String::new();
    let mut i = 0;
    while i < cs.len() {
        if cs[i] != '&' {
            out.push(cs[i]);
            i += 1;
            continue;
        }
        // find the terminating ';' — another '&' first means the reference is not terminated
        let mut j = i + 1;
        while j < cs.len() && cs[j] != ';' && cs[j] != '&' {
            j += 1;
        }
        if j >= cs.len() || cs[j] != ';' {
            return Err(());
        }
        let name: String = cs[i + 1..j].iter().collect();
        if let Some(num) = name.strip_prefix('#') {
            let (digits, radix) = match num.strip_prefix('x') {
                Some(h) => (h, 16u32),
                None => (num, 10u32),
            };
            if digits.is_empty() {
                return Err(());
            }
            let mut v: u64 = 0;
            for d in digits.chars() {
                let dv = d.to_digit(radix).ok_or(())? as u64;
                v = v * radix as u64 + dv;
                if v > u32::MAX as u64 {
                    return Err(());
                }
            }
            if v == 0 {
                return Err(());
            }
            match char::from_u32(v as u32) {
                Some(c) => out.push(c),
                None => return Err(()),
            }
        } else if let Some((_, v)) = custom.iter().find(|(k, _)| *k == name) {
            out.push_str(v);
        } else if let Some(t) = catch_all {
            out.push_str(t);
        } else {
            out.push(match name.as_str() {
                "lt" => '<',
                "gt" => '>',
                "amp" => '&',
                "apos" => '\'',
                "quot" => '"',
                _ => return Err(()),
            });
        }
        i = j + 1;
    }
    Ok(out)
}

/// a terminated reference by a name other than the five predefined ones: in a build with `escape-html`
/// the HTML5 names are known too (documented), so what such a reference means is outside the statement
fn has_other_name(s: &str) -> bool {
    let mut rest = s;
    while let Some(i) = rest.find('&') {
        rest = &rest[i + 1..];
        let end = rest.find(|c| c == ';' || c == '&');
        if let Some(e) = end {
            if rest.as_bytes()[e] == b';' {
                let name = &rest[..e];
                if !name.starts_with('#') && !matches!(name, "lt" | "gt" | "amp" | "apos" | "quot") {
                    return true;
                }
            }
        }
    }
    false
}
const HTML: bool = cfg!(feature = "html");

/// every '&' in an escaped string must start one of the five entities or a character reference
fn only_legal_ampersands(e: &str) -> bool {
    let b = e.as_bytes();
    let mut i = 0;
    while i < b.len() {
        if b[i] == b'&' {
            let rest = &e[i..];
            let ok = ["&lt;", "&gt;", "&amp;", "&apos;", "&quot;"].iter().any(|p| rest.starts_with(p)) || {
                rest.starts_with("&#") && rest[2..].find(';').map_or(false, |k| k > 0 && rest[2..2 + k].chars().all(|c| c.is_ascii_hexdigit() || c == 'x'))
            };
            if !ok {
                return false;
            }
        }
        i += 1;
    }
    true
}

pub fn check(c: &Case) -> Verdict {
    match c {
        Case::Str(s) if s.starts_with("\u{1}resolve:") => {
            let name = &s["\u{1}resolve:".len()..];
            let want = match name {
                "lt" => Some("<"),
                "gt" => Some(">"),
                "amp" => Some("&"),
                "apos" => Some("'"),
                "quot" => Some("\""),
                _ => None,
            };
            let a = quick_xml::escape::resolve_xml_entity(name);
            let mut b = quick_xml::escape::resolve_predefined_entity(name);
            if HTML && want.is_none() {
                // with `escape-html` resolve_predefined_entity knows the HTML5 names (documented)
                b = None;
            }
            if a != want || b != want {
                return Verdict::fail(format!("resolve_xml_entity({:?}) = {:?}, resolve_predefined_entity = {:?}, expected {:?}", name, a, b, want));
            }
            Verdict::pass(true)
        }
        Case::Str(s) => {
            let special = s.chars().any(|c| matches!(c, '<' | '>' | '&' | '\'' | '"'));
            let mut v = Verdict::pass(special);
            type F = for<'a> fn(&'a str) -> Cow<'a, str>;
            let levels: [(&str, F, &[char]); 3] = [("escape", |s| escape(s), &['<', '>', '\'', '"']), ("partial_escape", |s| partial_escape(s), &['<', '>']), ("minimal_escape", |s| minimal_escape(s), &['<'])];
            for (name, f, removed) in levels {
                let e = f(s);
                if let Some(bad) = e.chars().find(|c| removed.contains(c)) {
                    return Verdict::fail(format!("{}({:?}) = {:?} still contains {:?}", name, s, e, bad));
                }
                if !only_legal_ampersands(&e) {
                    return Verdict::fail(format!("{}({:?}) = {:?} contains a bare '&'", name, s, e));
                }
                match unescape(&e) {
                    Ok(u) if u == *s => {}
                    other => return Verdict::fail(format!("unescape({}({:?})) = unescape({:?}) = {:?}", name, s, e, other)),
                }
                if !special && e != *s {
                    return Verdict::fail(format!("{}({:?}) changed a string without special characters: {:?}", name, s, e));
                }
            }
            // unescape of the string itself, against the reference
            let got = unescape(s);
            let html_names = HTML && has_other_name(s);
            if html_names {
                v.classes.push("html-build-other-names-not-judged");
            }
            match (&got, ref_unescape(s)) {
                _ if html_names => {}
                (Ok(g), Ok(w)) if **g == w => {}
                (Err(_), Err(())) => v.classes.push("malformed-reference-rejected"),
                (g, w) => return Verdict::fail(format!("unescape({:?}) = {:?}, reference says {:?}", s, g, w)),
            }
            if !s.contains('&') {
                match got {
                    Ok(Cow::Borrowed(b)) if b == s => {}
                    other => return Verdict::fail(format!("unescape({:?}) of a string without '&' is not the borrowed input: {:?}", s, other)),
                }
            } else {
                v.classes.push("contains-ampersand");
            }
            // the custom-resolver entry point must agree for the predefined entities
            let with = unescape_with(s, |e| match e {
                "lt" => Some("<"),
                "gt" => Some(">"),
                "amp" => Some("&"),
                "apos" => Some("'"),
                "quot" => Some("\""),
                _ => None,
            });
            if !html_names && with.as_ref().ok().map(|c| c.to_string()) != unescape(s).ok().map(|c| c.to_string()) {
                return Verdict::fail(format!("unescape_with(predefined) differs from unescape on {:?}", s));
            }
            // a resolver with custom entities (consulted first) against the reference with the same table
            let withc = unescape_with(s, |e| CUSTOM.iter().find(|(k, _)| *k == e).map(|(_, v)| *v).or(match e {
                "lt" => Some("<"),
                "gt" => Some(">"),
                "amp" => Some("&"),
                "apos" => Some("'"),
                "quot" => Some("\""),
                _ => None,
            }));
            let wantc = ref_unescape_with(s, CUSTOM);
            match (&withc, &wantc) {
                (Ok(a), Ok(b)) if a.as_ref() == b.as_str() => {
                    if CUSTOM.iter().any(|(k, _)| s.contains(&format!("&{};", k))) {
                        v.classes.push("custom-entity-resolved");
                    }
                }
                (Err(_), Err(())) => {}
                _ => return Verdict::fail(format!("unescape_with(custom entities) on {:?} gives {:?}, the reference gives {:?}", s, withc, wantc)),
            }
            // a resolver that answers every name, also ones that start with '#': character references
            // keep their meaning (and their errors)
            let witha = unescape_with(s, |_| Some("\u{fffd}"));
            let wanta = ref_unescape_full(s, &[], Some("\u{fffd}"));
            match (&witha, &wanta) {
                (Ok(a), Ok(b)) if a.as_ref() == b.as_str() => {}
                (Err(_), Err(())) => {}
                _ => return Verdict::fail(format!("unescape_with(a resolver answering every name) on {:?} gives {:?}, the reference gives {:?}", s, witha, wanta)),
            }
            v
        }
        Case::CodePoint(cp, spelling) => {
            let text = match spelling {
                0 => format!("&#{};", cp),
                1 => format!("&#x{:x};", cp),
                2 => format!("&#x{:X};", cp),
                3 => format!("&#000{};", cp),
                _ => format!("&#x0000000{:x};", cp),
            };
            let valid = *cp != 0 && char::from_u32(*cp).is_some();
            let mut v = Verdict::pass(valid);
            let full = format!("a{}b", text);
            let got = unescape(&full);
            match (valid, &got) {
                (true, Ok(s)) => {
                    let want = format!("a{}b", char::from_u32(*cp).unwrap());
                    if **s != want {
                        return Verdict::fail(format!("unescape({:?}) = {:?}, expected {:?}", text, s, want));
                    }
                }
                (false, Err(_)) => v.classes.push("invalid-code-point-rejected"),
                _ => return Verdict::fail(format!("unescape({:?}) = {:?} but the code point is {}", text, got, if valid { "valid" } else { "not a valid non-zero scalar" })),
            }
            v
        }
    }
}

pub const ALPHA: &[&str] = &["<", ">", "&", "'", "\"", "#", "x", ";", "0", "9", "a", "A", "\u{e9}", " "];

fn exh_str(mut idx: u64) -> String {
    let a = ALPHA.len() as u64;
    let mut len = 0;
    let mut p = 1u64;
    while idx >= p {
        idx -= p;
        p *= a;
        len += 1;
    }
    let mut parts = vec![""; len];
    for k in (0..len).rev() {
        parts[k] = ALPHA[(idx % a) as usize];
        idx /= a;
    }
    parts.concat()
}

const MALFORMED: &[&str] = &[
    "&#+65;", "&#-65;", "&#x+41;", "&#x-41;", "&#;", "&#x;", "&;", "&", "&amp", "&#65", "&#x41", "&unknown;", "&AMP;", "&Lt;", "&#X41;", "&# 65;", "&#6 5;", "&#x 41;", "&#4294967296;", "&#x100000000;", "&#99999999999999999999;", "&#xFFFFFFFFFFFFFFFFF;",
    "&#xD800;", "&#xDFFF;", "&#55296;", "&#x110000;", "&#1114112;", "&#0;", "&#x0;", "&#00;", "&#x000;", "&#65;&", "&&amp;", "&amp;&", "&#65&#66;", "&lt&gt;", "&#1_0;", "&#x4G;", "&#6a;", "&#\u{661};", "&amp ;", "& amp;", "&\u{e9};", "&#x41;;", ";&#x41;", "&#x41;&#x42;", "&lt;&gt;&amp;&apos;&quot;",
    "&nbsp;", "&copy;", "&#x;&#65;",
];

fn run(ctx: &Ctx) {
    ctx.run_regress::<Case, _>(check);
    let n = ctx.tier.pick(6, 7);
    let count = crate::gen::exh_count(ALPHA.len() as u64, n);
    ctx.run_indexed("exh-strings", count, |i| Some(Case::Str(exh_str(i))), check);
    ctx.run_indexed("all-code-points-x-5-spellings", (0x110000u64 + 0x100) * 5, |i| Some(Case::CodePoint((i / 5) as u32, (i % 5) as u8)), check);
    ctx.run_indexed("beyond-u32-and-edge-code-points", 64 * 5, |i| Some(Case::CodePoint(u32::MAX - (i / 5) as u32, (i % 5) as u8)), check);
    ctx.run_indexed("malformed-table", MALFORMED.len() as u64 * 3, |i| {
        let m = MALFORMED[(i / 3) as usize];
        Some(Case::Str(match i % 3 {
            0 => m.to_string(),
            1 => format!("x{}y", m),
            _ => format!("&lt;{}&#x20;", m),
        }))
    }, check);
    // every reference body of up to 5 characters over digits, hex letters, both 'x', signs, blank and
    // '_' - after "&#" and after "&#x" (signs / blanks / separators anywhere, not only in front)
    const BODY: &[char] = &['0', '1', '9', 'a', 'F', 'x', 'X', '+', '-', ' ', '_'];
    let nbody = crate::gen::exh_count(BODY.len() as u64, 5);
    ctx.run_indexed("exh-reference-bodies", nbody * 2, |i| {
        let mut k = i / 2;
        // index -> string over BODY (shortest first)
        let mut len = 0u32;
        let mut block = 1u64;
        while k >= block {
            k -= block;
            block *= BODY.len() as u64;
            len += 1;
        }
        let mut body = String::new();
        for _ in 0..len {
            body.push(BODY[(k % BODY.len() as u64) as usize]);
            k /= BODY.len() as u64;
        }
        Some(Case::Str(format!("{}{};", if i % 2 == 0 { "&#" } else { "&#x" }, body)))
    }, check);
    // every upper/lower-case spelling of the five predefined names: only the all-lower-case one exists
    ctx.run_indexed("predefined-names-in-every-case-spelling", 4 + 4 + 8 + 16 + 16, |i| {
        let (name, k) = match i {
            0..=3 => ("lt", i),
            4..=7 => ("gt", i - 4),
            8..=15 => ("amp", i - 8),
            16..=31 => ("apos", i - 16),
            _ => ("quot", i - 32),
        };
        let spelled: String = name.chars().enumerate().map(|(j, c)| if k >> j & 1 == 1 { c.to_ascii_uppercase() } else { c }).collect();
        Some(Case::Str(format!("a&{};b", spelled)))
    }, check);
    // the resolver functions themselves: exactly the five names, nothing else (case variants, prefixes,
    // extensions, blanks, the empty name, numeric forms)
    const PROBES: &[&str] = &["lt", "gt", "amp", "apos", "quot", "LT", "Lt", "GT", "AMP", "Amp", "APOS", "QUOT", "Quot", "l", "g", "a", "am", "ap", "apo", "quo", "q", "ltt", "lt;", "&lt;", "&lt", " lt", "lt ", "gtx", "ampp", "aposs", "quott", "", "#", "#60", "#x3c", "nbsp", "copy", "amp\u{0}", "\u{e9}"];
    ctx.run_indexed("resolver-functions-on-a-table-of-names", PROBES.len() as u64, |i| Some(Case::Str(format!("\u{1}resolve:{}", PROBES[i as usize]))), check);
    // offset sweep: every special / reference form after a run of 0..=130 plain bytes and before a
    // run of 0..=40 (block-wise scanners, copy offsets), with two kinds of plain runs
    const SPECIALS: &[&str] = &["<", ">", "&", "'", "\"", "&amp;", "&lt;&gt;", "&#65;", "&#x10FFFF;", "&unknown;", "&#0;", "&", "&;", "\u{e9}<", "\r\n&", "]]>", "&apos;&quot;", "&e;", "&z;", "&long;&x;", "&a;&e"];
    let (pmax, qmax) = ctx.tier.pick((130u64, 40u64), (300, 80));
    ctx.run_indexed("offset-sweep", (pmax + 1) * (qmax + 1) * SPECIALS.len() as u64 * 2, |i| {
        let fill = if i % 2 == 0 { "a" } else { "\u{e9}" };
        let i = i / 2;
        let sp = SPECIALS[(i % SPECIALS.len() as u64) as usize];
        let i = i / SPECIALS.len() as u64;
        let (p, q) = ((i / (qmax + 1)) as usize, (i % (qmax + 1)) as usize);
        // a second special after the tail now and then
        Some(Case::Str(format!("{}{}{}{}", fill.repeat(p), sp, "b".repeat(q), if (p + q) % 5 == 0 { sp } else { "" })))
    }, check);
    let piece = prop_oneof![
        4 => prop::sample::select(vec!["<", ">", "&", "'", "\"", "#", "x", ";", "&amp;", "&lt;", "&#", "&#x", "&e;", "&z;", "&long;", "&x;", "&a;", "&e", "]]>", "--", " ", "\t", "\n", "\r", "0", "41", "\u{e9}", "\u{20ac}", "\u{1F600}", "\u{0}", "\u{FFFD}", "\u{FEFF}"]).prop_map(|s| s.to_string()),
        2 => any::<char>().prop_map(|c| c.to_string()),
        1 => "[a-zA-Z0-9]{0,6}",
    ];
    let strat = prop::collection::vec(piece, 0..24).prop_map(|v| Case::Str(v.concat()));
    ctx.run_proptest("unicode-strings", ctx.tier.pick(1_000_000, 10_000_000), strat, check);
}

fn replay(_stage: &str, case: &Value) -> Result<Verdict, String> {
    let c: Case = serde_json::from_value(case.clone()).map_err(|e| e.to_string())?;
    Ok(check(&c))
}
