//! C13 — the serializer emits only well-formed XML that carries the data unchanged.

use super::PropInfo;
use crate::dynval::*;
use crate::engine::{Ctx, Verdict};
use crate::rec::*;
use crate::types::*;
use crate::xmlname::is_name;
use proptest::prelude::*;
use quick_xml::events::Event;
use quick_xml::reader::Reader;
use serde::{Deserialize, Serialize};
use serde_json::Value;

#[derive(Clone, Debug, Serialize, Deserialize, PartialEq)]
pub enum Payload {
    Family(Val),
    Dyn(Dyn),
}

#[derive(Clone, Debug, Serialize, Deserialize, PartialEq)]
pub struct Case {
    pub value: Payload,
    pub opts: SerOpts,
}

pub const F5: &str = "F5-empty-name-accepted";

pub fn info() -> PropInfo {
    PropInfo {
        id: "C13",
        run,
        replay,
        rule: "cases = (value, serializer options incl. arbitrary root names). Values: the C06 family with hostile strings, and dynamically shaped values with a hand-written Serialize: structs/variants/fields named from hostile pools ('', '@', 'a b', '<x>', '1a', '$text', '$value', 'xmlns', quotes, '>'), maps with arbitrary string keys, Option without skip, nested sequences, bytes, NaN, unit variants named like markup, primitives in $value. Oracle: the call returns Err, or the output (a) is read by Reader with all checks on without error, (b) nests properly, (c) every attribute list iterates without error, (d) every element and attribute name is a legal XML 1.1 Name by an independent predicate, (e) metamorphic injection check: the element/attribute skeleton equals the skeleton of the same value with every string payload replaced by 'x'. Non-trivial = serialization succeeded and at least one payload contains < & > a quote or ]]>.",
        assumptions: &["a top-level sequence legitimately produces several root elements and a top-level text variant produces bare text (documented): only nesting is required, not a single root", "duplicate attribute names (two fields renamed alike) are the caller's business: attribute lists are iterated with duplicate checking off"],
        level: "exploration",
        variants: &["full"],
    }
}

#[derive(Debug, PartialEq, Clone)]
enum Sk {
    Open(String, Vec<String>),
    Close,
}

/// parse the output strictly; returns the element/attribute skeleton
fn skeleton(xml: &str) -> Result<Vec<Sk>, String> {
    let mut r = Reader::from_reader(xml.as_bytes());
    apply_cfg(r.config_mut(), CHECK_END_NAMES | CHECK_COMMENTS | TRIM_NAMES);
    let mut out = vec![];
    let mut depth = 0i64;
    let names = |s: &quick_xml::events::BytesStart| -> Result<(String, Vec<String>), String> {
        let name = String::from_utf8(s.name().as_ref().to_vec()).map_err(|_| "non-UTF-8 name".to_string())?;
        if !is_name(&name) {
            return Err(format!("element name {:?} is not a legal XML name", name));
        }
        let mut keys = vec![];
        for a in s.attributes().with_checks(false) {
            let a = a.map_err(|e| format!("attribute list of <{}> does not iterate: {:?}", name, e))?;
            let k = String::from_utf8(a.key.as_ref().to_vec()).map_err(|_| "non-UTF-8 attribute name".to_string())?;
            if !is_name(&k) {
                return Err(format!("attribute name {:?} on <{}> is not a legal XML name", k, name));
            }
            a.unescape_value_checked()?;
            keys.push(k);
        }
        Ok((name, keys))
    };
    for _ in 0..2 * xml.len() + 4 {
        match r.read_event() {
            Ok(Event::Eof) => {
                if depth != 0 {
                    return Err(format!("{} element(s) left open at the end", depth));
                }
                return Ok(out);
            }
            Ok(Event::Start(s)) => {
                let (n, k) = names(&s)?;
                out.push(Sk::Open(n, k));
                depth += 1;
            }
            Ok(Event::Empty(s)) => {
                let (n, k) = names(&s)?;
                out.push(Sk::Open(n, k));
                out.push(Sk::Close);
            }
            Ok(Event::End(_)) => {
                depth -= 1;
                if depth < 0 {
                    return Err("end tag without start tag".into());
                }
                out.push(Sk::Close);
            }
            Ok(Event::Text(t)) => {
                t.unescape().map_err(|e| format!("text {:?} does not unescape: {:?}", String::from_utf8_lossy(&t), e))?;
            }
            Ok(Event::CData(_)) => {}
            Ok(other) => return Err(format!("unexpected markup in serializer output: {:?}", other)),
            Err(e) => return Err(format!("reader error {:?} at {}", e, r.error_position())),
        }
    }
    Err("no Eof".into())
}

trait UnescapeChecked {
    fn unescape_value_checked(&self) -> Result<(), String>;
}
impl<'a> UnescapeChecked for quick_xml::events::attributes::Attribute<'a> {
    fn unescape_value_checked(&self) -> Result<(), String> {
        let raw = std::str::from_utf8(&self.value).map_err(|_| "non-UTF-8 attribute value".to_string())?;
        quick_xml::escape::unescape(raw).map(|_| ()).map_err(|e| format!("attribute value {:?} does not unescape: {:?}", raw, e))
    }
}

fn serialize(p: &Payload, o: &SerOpts) -> Result<String, String> {
    match p {
        Payload::Family(v) => v.serialize_with(o).map_err(|e| e.to_string()),
        Payload::Dyn(d) => ser(&DynXml(d), o).map_err(|e| e.to_string()),
    }
}

pub const F16: &str = "F16-attribute-named-twice-by-the-value-is-written-twice";

/// first element of the (already known to be readable) output whose attribute list yields an error
/// under the default, duplicate-checking iteration
fn duplicated_attribute(xml: &str) -> Option<String> {
    let mut r = Reader::from_reader(xml.as_bytes());
    for _ in 0..2 * xml.len() + 4 {
        match r.read_event() {
            Ok(Event::Eof) | Err(_) => return None,
            Ok(Event::Start(s)) | Ok(Event::Empty(s)) => {
                for a in s.attributes() {
                    if let Err(e) = a {
                        return Some(format!("attribute list of <{}> does not iterate under the default checks: {:?}", String::from_utf8_lossy(s.name().as_ref()), e));
                    }
                }
            }
            Ok(_) => {}
        }
    }
    None
}

pub fn check(c: &Case) -> Verdict {
    let xml = match serialize(&c.value, &c.opts) {
        Ok(x) => x,
        Err(_) => return Verdict::pass(false).class("rejected-with-error"),
    };
    let sk = match skeleton(&xml) {
        Ok(s) => s,
        Err(m) => {
            let mut v = Verdict::fail(format!("{} | output {:?} | value {:?} | opts {:?}", m, xml, c.value, c.opts));
            // F5 signature: an EMPTY element/attribute name reached the output
            if xml.contains("<>") || xml.contains("</>") || xml.contains("< ") || xml.contains(" =\"") || xml.contains("</ ") || xml.contains("<>") || xml.contains("</>") {
                v.classes.push("empty-name-in-output");
            }
            return v;
        }
    };
    let mut v = Verdict::pass(false).class("serialized");
    // the attribute lists must also iterate without error the way a user iterates them (duplicate
    // checking is ON by default)
    if let Some(m) = duplicated_attribute(&xml) {
        let repeats = matches!(&c.value, Payload::Dyn(d) if d.repeats_attribute_key());
        if repeats {
            // finding F16: the value itself names one attribute twice and the serializer writes both
            v.known.push(F16);
        } else {
            return Verdict::fail(format!("{} | output {:?} | value {:?} | opts {:?}", m, xml, c.value, c.opts));
        }
    }
    if let Payload::Dyn(d) = &c.value {
        v.nontrivial = d.has_hostile_payload();
        let neutral = Payload::Dyn(d.neutralised());
        match serialize(&neutral, &c.opts) {
            Ok(nx) => match skeleton(&nx) {
                Ok(nsk) => {
                    if nsk != sk {
                        return Verdict::fail(format!("payload changed the markup skeleton: with payloads {:?} -> {:?}; with payloads replaced by 'x' {:?} -> {:?}", xml, sk, nx, nsk));
                    }
                    v.classes.push("injection-check-done");
                }
                Err(m) => return Verdict::fail(format!("{} | output {:?} (neutralised value)", m, nx)),
            },
            Err(_) => v.classes.push("neutralised-value-rejected"),
        }
    } else if let Payload::Family(f) = &c.value {
        v.nontrivial = has_special_payload(f);
    }
    v
}

fn root_strategy() -> impl Strategy<Value = Option<String>> {
    prop_oneof![
        2 => Just(None),
        3 => prop::sample::select(vec!["root", "r", "x-y", "n:s", "\u{e9}", "_"]).prop_map(|s| Some(s.to_string())),
        2 => prop::sample::select(STRUCT_NAMES.to_vec()).prop_map(|s| Some(s.to_string())),
        1 => hostile_string().prop_map(Some),
    ]
}

fn opts() -> impl Strategy<Value = SerOpts> {
    (0u8..3, prop::option::of((prop::sample::select(vec![' ', '\t']), 0u8..5)), any::<bool>(), root_strategy()).prop_map(|(level, indent, expand_empty, root)| SerOpts { level, indent, expand_empty, root })
}

/// family values with hostile strings: reuse the family strategies (their strings already
/// favour markup) — the attribute strings are unrestricted there
fn run(ctx: &Ctx) {
    ctx.run_regress::<Case, _>(check);
    let s1 = || Box::new((dyn_strategy(), opts()).prop_map(|(d, opts)| Case { value: Payload::Dyn(d), opts }));
    ctx.run_proptest_with("dynamic-hostile-values", ctx.tier.pick(1_500_000, 12_000_000), s1, check);
    let s2 = || Box::new((any_val(), opts()).prop_map(|(v, opts)| Case { value: Payload::Family(v), opts }));
    ctx.run_proptest_with("family-values-hostile-roots", ctx.tier.pick(600_000, 5_000_000), s2, check);
    ctx.run_indexed("every-code-point-in-a-root-name", 0x110000 * 2, |i| Some(NameCase { cp: (i / 2) as u32, first: i % 2 == 0 }), check_name);
    let s3 = || Box::new((any_val(), any::<u16>(), 1u8..40).prop_map(|(value, budget, chunk)| SinkCase { value, budget, chunk }));
    ctx.run_proptest_with("io-sink-that-fails-after-n-bytes", ctx.tier.pick(200_000, 2_000_000), s3, check_sink);
    // every hostile name in every position, exhaustively (names are the small static pools)
    let n = (STRUCT_NAMES.len() * FIELD_KEYS.len() * VARIANTS.len()) as u64;
    ctx.run_indexed(
        "every-name-pool-combination",
        n * 6,
        |i| {
            let shape = i % 6;
            let j = i / 6;
            let (sn, fk, vn) = ((j % STRUCT_NAMES.len() as u64) as u8, ((j / STRUCT_NAMES.len() as u64) % FIELD_KEYS.len() as u64) as u8, (j / STRUCT_NAMES.len() as u64 / FIELD_KEYS.len() as u64) as u8);
            let payload = Dyn::Str("<v a='1'>&\"".into());
            let d = match shape {
                0 => Dyn::Struct(sn, vec![(fk, payload)]),
                1 => Dyn::Struct(0, vec![(fk, Dyn::UnitVariant(sn, vn))]),
                2 => Dyn::Struct(0, vec![(5, Dyn::Seq(vec![Dyn::UnitVariant(sn, vn), Dyn::NewtypeVariant(sn, vn, Box::new(payload))]))]),
                3 => Dyn::Map(vec![(FIELD_KEYS[fk as usize].to_string(), Dyn::StructVariant(sn, vn, vec![(fk, payload)]))]),
                4 => Dyn::NewtypeVariant(sn, vn, Box::new(Dyn::Struct(sn, vec![(fk, payload)]))),
                _ => Dyn::Struct(sn, vec![(fk, Dyn::Some(Box::new(Dyn::Tuple(vec![payload.clone(), Dyn::UnitVariant(sn, vn)]))))]),
            };
            Some(Case { value: Payload::Dyn(d), opts: SerOpts { level: (i % 3) as u8, indent: None, expand_empty: false, root: if shape == 3 { Some(STRUCT_NAMES[sn as usize].to_string()) } else { None } } })
        },
        check,
    );
}

/// every code point as first and as later character of a root name: accepted exactly when the
/// independent XML 1.1 `Name` predicate accepts it
#[derive(Clone, Debug, Serialize, Deserialize, PartialEq)]
pub struct NameCase {
    pub cp: u32,
    pub first: bool,
}

pub fn check_name(c: &NameCase) -> Verdict {
    let ch = match char::from_u32(c.cp) {
        Some(ch) => ch,
        None => return Verdict::excluded("surrogate"),
    };
    let name = if c.first { format!("{}b", ch) } else { format!("a{}b", ch) };
    let legal = crate::xmlname::is_name(&name);
    let got = quick_xml::se::to_string_with_root(&name, &7u8);
    match (&got, legal) {
        (Ok(out), true) if *out == format!("<{}>7</{}>", name, name) => Verdict::pass(true).class("legal-name-accepted"),
        (Err(_), false) => Verdict::pass(true).class("illegal-name-rejected"),
        (Ok(out), false) => Verdict::fail(format!("root name {:?} (U+{:04X} {}) is not a legal XML name but reached the output: {:?}", name, c.cp, if c.first { "first" } else { "later" }, out)),
        // rejecting a legal name is not a violation of this property (nothing illegal reaches the output)
        (Err(_), true) => Verdict::pass(false).class("legal-name-rejected"),
        (Ok(out), true) => Verdict::fail(format!("root name {:?} gives unexpected output {:?}", name, out)),
    }
}

/// serialization into an io::Write sink that fails after `budget` bytes: the call must report the
/// error, or everything must have reached the sink
#[derive(Clone, Debug, Serialize, Deserialize, PartialEq)]
pub struct SinkCase {
    pub value: crate::types::Val,
    /// the sink accepts this share (0..=65535 scaled to 0..=len+1) of the full output, then fails
    pub budget: u16,
    pub chunk: u8,
}

struct FailingSink {
    out: Vec<u8>,
    left: usize,
    chunk: usize,
}
impl std::io::Write for FailingSink {
    fn write(&mut self, buf: &[u8]) -> std::io::Result<usize> {
        if self.left == 0 {
            return Err(std::io::Error::new(std::io::ErrorKind::Other, "qxv: sink is full"));
        }
        let n = buf.len().min(self.left).min(self.chunk.max(1));
        self.out.extend_from_slice(&buf[..n]);
        self.left -= n;
        Ok(n)
    }
    fn flush(&mut self) -> std::io::Result<()> {
        Ok(())
    }
}

fn to_io<T: serde::Serialize>(v: &T, sink: &mut FailingSink) -> Result<(), String> {
    quick_xml::se::to_utf8_io_writer(sink, v).map(|_| ()).map_err(|e| e.to_string())
}

pub fn check_sink(c: &SinkCase) -> Verdict {
    let full = match c.value.serialize_with(&SerOpts { level: 1, indent: None, expand_empty: false, root: None }) {
        Ok(x) => x,
        Err(_) => return Verdict::excluded("value-does-not-serialize"),
    };
    let budget = crate::engine::scale(c.budget, full.len() + 2);
    let mut sink = FailingSink { out: vec![], left: budget, chunk: c.chunk as usize };
    let res = c.value.serialize_io(&mut |v: &dyn erased::Ser| v.go(&mut sink));
    match res {
        Ok(()) => {
            if sink.out != full.as_bytes() {
                return Verdict::fail(format!("to_utf8_io_writer returned Ok but the sink (room for {} of {} bytes) holds {:?}, the full output is {:?}", budget, full.len(), String::from_utf8_lossy(&sink.out), full));
            }
            Verdict::pass(budget >= full.len()).class("io-sink-complete")
        }
        Err(_) => {
            if budget >= full.len() + 1 {
                return Verdict::fail(format!("to_utf8_io_writer failed although the sink had room for the whole output ({} bytes)", full.len()));
            }
            Verdict::pass(true).class("io-sink-error-reported")
        }
    }
}

pub mod erased {
    pub trait Ser {
        fn go(&self, sink: &mut super::FailingSink) -> Result<(), String>;
    }
    impl<T: serde::Serialize> Ser for T {
        fn go(&self, sink: &mut super::FailingSink) -> Result<(), String> {
            super::to_io(self, sink)
        }
    }
}

fn replay(_stage: &str, case: &Value) -> Result<Verdict, String> {
    if case.get("cp").is_some() {
        let c: NameCase = serde_json::from_value(case.clone()).map_err(|e| e.to_string())?;
        return Ok(check_name(&c));
    }
    if case.get("budget").is_some() {
        let c: SinkCase = serde_json::from_value(case.clone()).map_err(|e| e.to_string())?;
        return Ok(check_sink(&c));
    }
    let c: Case = serde_json::from_value(case.clone()).map_err(|e| e.to_string())?;
    Ok(check(&c))
}
