//! C03 — reading is total: no panic, always terminates, Eof is final.

use super::PropInfo;
use crate::engine::{Ctx, SplitMix64, Verdict, B};
use crate::gen;
use crate::rec::*;
use crate::sources::{block_on, ChunkedAsync, ChunkedBufRead};
use proptest::prelude::*;
use quick_xml::encoding::Decoder;
use quick_xml::errors::Error;
use quick_xml::events::{BytesStart, Event};
use quick_xml::reader::{NsReader, Reader};
use serde::{Deserialize, Serialize};
use serde_json::Value;

#[derive(Clone, Debug, Serialize, Deserialize, PartialEq)]
pub struct Case {
    pub input: B,
    pub cfg: u8,
    /// 0 slice, 1 buffered, 2 async
    pub source: u8,
    /// piece size for buffered/async (0 = whole)
    pub piece: u8,
    /// number of Pending results before each piece (async)
    pub pend: u8,
    pub ns: bool,
    /// bit k set: after the k-th start event (mod 8) call read_to_end* (odd k: read_text on the slice)
    #[serde(default)]
    pub skip: u8,
    /// bit k set: after read call number k (mod 8) read 1-3 raw bytes through Reader::stream()
    /// (slice and buffered sources)
    #[serde(default)]
    pub raw: u8,
}

pub fn info() -> PropInfo {
    PropInfo {
        id: "C03",
        run,
        replay,
        rule: "cases = (input over all 256 byte values, configuration, source kind and chunking, Reader or NsReader). Invariants over the call history: every call returns (catch_unwind), Eof within 2*len+4 calls, after Eof and after any syntax error the next calls return Eof, positions never decrease and never exceed the input length, error position <= position; every payload accessor is exercised on every returned event; after some start events read_to_end* / read_text is called (a read call like any other: same invariants). Enumerated: all byte strings to length 2 (3 in the thorough tier), all markup strings to length 5; generated: markup-biased byte vectors, soups with arbitrary bytes injected, mutated corpus. Non-trivial = the run produced an error or at least two non-text events. Two further enumerations vary SIZE and OFFSET: fourteen construct kinds (text, long name, quoted value with '>', many attributes, blanks inside tags, comment / CDATA / PI bodies with near-terminators, DOCTYPE with nested brackets, blank runs around text, reference runs, declaration, deep nesting) with an inner length 0..=70 placed after a prefix of 0..=130 bytes, and large inputs whose variable part is 255..70 001 bytes long (block-wise scanners, buffer growth, positions beyond 255 / 65 535, default BufReader capacity).",
        assumptions: &["what the reader does after an I/O or a recoverable ill-formedness/namespace error is not asserted", "bounded time is decided by the call-count bound, not by a clock"],
        level: "exploration",
        variants: &["full", "min"],
    }
}

fn exercise_start(s: &BytesStart, decoder: Decoder) {
    let _ = s.name().as_ref().len();
    let _ = s.local_name().as_ref().len();
    let _ = s.name().prefix().map(|p| p.as_ref().len());
    let _ = s.name().decompose();
    let _ = s.name().as_namespace_binding();
    let _ = s.attributes_raw().len();
    let _ = s.to_end().name().as_ref().len();
    let _ = s.borrow().name();
    let owned = s.to_owned();
    let _ = owned.name();
    for html in [false, true] {
        for checks in [true, false] {
            let mut it = if html { s.html_attributes() } else { s.attributes() };
            it.with_checks(checks);
            let mut n = 0;
            for a in &mut it {
                n += 1;
                assert!(n <= s.len() + 2, "attribute iterator yields more items than bytes");
                if let Ok(a) = a {
                    let _ = a.key.local_name();
                    let _ = a.key.prefix();
                    let _ = a.key.as_namespace_binding();
                    let _ = a.decode_and_unescape_value(decoder);
                    let _ = a.decode_and_unescape_value_with(decoder, |_| Some("x"));
                    #[cfg(not(feature = "full"))]
                    {
                        let _ = a.unescape_value();
                    }
                    let _ = a.as_bool();
                }
            }
            assert!(it.next().is_none(), "attribute iterator restarts after None");
        }
    }
    let _ = s.try_get_attribute("a");
    let _ = s.try_get_attribute(b"k".as_ref());
    let mut edit = s.to_owned();
    edit.push_attribute(("z", "1"));
    edit.set_name(b"n");
    edit.clear_attributes();
}

pub fn exercise(ev: &Event, decoder: Decoder) {
    match ev {
        Event::Start(s) | Event::Empty(s) => exercise_start(s, decoder),
        Event::End(e) => {
            let _ = e.name().as_ref().len();
            let _ = e.local_name();
            let _ = e.name().prefix();
            let _ = e.borrow().name();
        }
        Event::Text(t) | Event::Comment(t) | Event::DocType(t) => {
            let _ = t.unescape();
            let _ = t.unescape_with(|_| Some("x"));
            let _ = decoder.decode(t);
            let mut o = t.clone().into_owned();
            o.inplace_trim_start();
            o.inplace_trim_end();
            let _ = o.into_inner();
        }
        Event::CData(c) => {
            let _ = c.clone().escape();
            let _ = c.clone().partial_escape();
            let _ = c.clone().minimal_escape();
            let _ = c.clone().into_inner();
        }
        Event::Decl(d) => {
            let _ = d.version();
            let _ = d.encoding();
            let _ = d.standalone();
            #[cfg(feature = "full")]
            {
                let _ = d.encoder();
            }
            let _ = d.borrow();
        }
        Event::PI(p) => {
            let _ = p.target().len();
            let _ = p.content().len();
            for a in p.attributes() {
                let _ = a;
            }
        }
        Event::Eof => {}
    }
    let _ = ev.borrow();
    let _ = format!("{:?}", ev);
    let o = ev.clone().into_owned();
    let _ = o.len();
}

#[derive(Default)]
struct Hist {
    calls: usize,
    prev_pos: u64,
    ended: bool,
    after_end: u32,
    errors: u32,
    nontext: u32,
    fail: Option<String>,
    done: bool,
}

impl Hist {
    /// returns true when the loop should stop
    fn observe(&mut self, res: &Result<Event, Error>, pos: u64, epos: u64, len: usize) -> bool {
        self.calls += 1;
        if pos < self.prev_pos {
            self.fail = Some(format!("call {}: position went back from {} to {}", self.calls, self.prev_pos, pos));
            return true;
        }
        if pos as usize > len {
            self.fail = Some(format!("call {}: position {} exceeds the input length {}", self.calls, pos, len));
            return true;
        }
        if epos > pos {
            self.fail = Some(format!("call {}: error position {} is greater than the position {}", self.calls, epos, pos));
            return true;
        }
        self.prev_pos = pos;
        if self.ended {
            if !matches!(res, Ok(Event::Eof)) {
                self.fail = Some(format!("call {}: after Eof / a syntax error the reader returned {:?}", self.calls, res));
                return true;
            }
            self.after_end += 1;
            if self.after_end >= 3 {
                self.done = true;
                return true;
            }
            return false;
        }
        match res {
            Ok(Event::Eof) => self.ended = true,
            Err(Error::Syntax(_)) => {
                self.errors += 1;
                self.ended = true;
            }
            Err(_) => self.errors += 1,
            Ok(Event::Text(_)) => {}
            Ok(_) => self.nontext += 1,
        }
        if !self.ended && self.calls > call_bound(len) {
            self.fail = Some(format!("no Eof after {} calls on {} bytes", self.calls, len));
            return true;
        }
        false
    }
}

fn cuts_for(c: &Case) -> Vec<usize> {
    crate::sources::cuts_fixed(c.piece as usize, c.input.len())
}

macro_rules! drive {
    ($r:ident, $h:ident, $len:expr, $read:expr, $ns:expr) => {
        drive!($r, $h, $len, $read, $ns, 0u8, _n, Ok::<(), Error>(()))
    };
    ($r:ident, $h:ident, $len:expr, $read:expr, $ns:expr, $skipmask:expr, $name:ident, $skip:expr) => {
        drive!($r, $h, $len, $read, $ns, $skipmask, $name, $skip, 0u8, ())
    };
    ($r:ident, $h:ident, $len:expr, $read:expr, $ns:expr, $skipmask:expr, $name:ident, $skip:expr, $rawmask:expr, $raw:expr) => {{
        let mut starts_seen = 0u32;
        let mut last_name: Option<Vec<u8>> = None;
        loop {
            let pos_probe;
            let epos_probe;
            {
                let res = $read;
                if let Ok(ev) = &res {
                    exercise(ev, $r.decoder());
                    $ns(ev);
                }
                pos_probe = 0u64;
                epos_probe = 0u64;
                let _ = (pos_probe, epos_probe);
                let res_owned: Result<Event<'static>, Error> = res.map(|e| e.into_owned());
                let pos = $r.buffer_position();
                let epos = $r.error_position();
                if $h.observe(&res_owned, pos, epos, $len) {
                    break;
                }
                // raw reads through `Reader::stream()` between events: positions must stay sane
                if ($rawmask >> ($h.calls % 8)) & 1 == 1 && !$h.ended {
                    $raw;
                    let (p2, e2) = ($r.buffer_position(), $r.error_position());
                    if p2 < $h.prev_pos || p2 as usize > $len || e2 > p2 {
                        $h.fail = Some(format!("after a raw read through stream(): position {} (before {}), error position {}, input length {}", p2, $h.prev_pos, e2, $len));
                        break;
                    }
                    $h.prev_pos = p2;
                }
                // the skipping calls are legal after ANY event, not only after a Start: now and then one is
                // made after a text / comment / end / ... event, with the name of the last start tag seen
                let mut skip_with: Option<Vec<u8>> = None;
                match &res_owned {
                    Ok(Event::Start(s)) => {
                        starts_seen += 1;
                        last_name = Some(s.name().as_ref().to_vec());
                        if ($skipmask >> (starts_seen % 8)) & 1 == 1 {
                            skip_with = last_name.clone();
                        }
                    }
                    Ok(Event::Eof) | Err(_) => {}
                    Ok(_) => {
                        if ($skipmask >> (($h.calls + 5) % 8)) & 1 == 1 && $h.calls % 3 == 1 && !$h.ended {
                            skip_with = last_name.clone();
                        }
                    }
                }
                if let Some(name_owned) = skip_with {
                    {
                        let $name = quick_xml::name::QName(&name_owned);
                        let r2: Result<(), Error> = $skip;
                        // a skip call is a read call too: same invariants; a syntax error or a
                        // missing end tag means the input was read to its end
                        let as_event: Result<Event<'static>, Error> = match r2 {
                            Ok(()) => Ok(Event::Text(quick_xml::events::BytesText::new("skipped"))),
                            Err(Error::IllFormed(quick_xml::errors::IllFormedError::MissingEndTag(_))) => Err(Error::Syntax(quick_xml::errors::SyntaxError::UnclosedTag)),
                            Err(e) => Err(e),
                        };
                        if $h.observe(&as_event, $r.buffer_position(), $r.error_position(), $len) {
                            break;
                        }
                    }
                }
            }
        }
    }};
}

/// one raw read through `Reader::stream()` with one of the `io::Read` methods; receivers are not
/// empty beforehand (read_to_end / read_to_string append)
fn raw_read<R: std::io::Read>(s: &mut R, sel: usize, n: usize) {
    match sel % 6 {
        0 | 1 => {
            let mut tmp = [0u8; 3];
            let _ = s.read(&mut tmp[..n.min(3)]);
        }
        2 => {
            let mut v = vec![b'x'; 5];
            let _ = s.read_to_end(&mut v);
        }
        3 => {
            let mut t = String::from("pre");
            let _ = s.read_to_string(&mut t);
        }
        4 => {
            let mut tmp = [0u8; 2];
            let _ = s.read_exact(&mut tmp);
        }
        _ => {
            let mut a = [0u8; 1];
            let mut b = [0u8; 2];
            let _ = s.read_vectored(&mut [std::io::IoSliceMut::new(&mut a), std::io::IoSliceMut::new(&mut b)]);
        }
    }
}

pub fn check(c: &Case) -> Verdict {
    let data = &c.input.0;
    let len = data.len();
    let mut h = Hist::default();
    match (c.ns, c.source) {
        (false, 0) => {
            let mut r = Reader::from_reader(&data[..]);
            apply_cfg(r.config_mut(), c.cfg);
            let mut rawk = 0usize;
            drive!(r, h, len, r.read_event(), |_e: &Event| {}, c.skip, n, if n.as_ref().len() % 2 == 1 { r.read_text(n).map(|_| ()) } else { r.read_to_end(n).map(|_| ()) }, c.raw, {
                rawk += 1;
                raw_read(&mut r.stream(), rawk + c.cfg as usize, 1 + (c.piece as usize % 3));
            });
        }
        (false, 1) => {
            let mut r = Reader::from_reader(ChunkedBufRead::new(data, cuts_for(c)));
            apply_cfg(r.config_mut(), c.cfg);
            let mut buf = Vec::new();
            let mut rawk = 0usize;
            drive!(
                r,
                h,
                len,
                {
                    buf.clear();
                    r.read_event_into(&mut buf)
                },
                |_e: &Event| {},
                c.skip,
                n,
                {
                    let mut b2 = Vec::new();
                    r.read_to_end_into(n, &mut b2).map(|_| ())
                },
                c.raw,
                {
                    rawk += 1;
                    raw_read(&mut r.stream(), rawk + c.cfg as usize, 1 + (c.pend as usize % 3));
                }
            );
        }
        (false, _) => {
            let mut r = Reader::from_reader(ChunkedAsync::new(data, cuts_for(c), vec![c.pend; 8]));
            apply_cfg(r.config_mut(), c.cfg);
            let mut buf = Vec::new();
            drive!(
                r,
                h,
                len,
                {
                    buf.clear();
                    block_on(r.read_event_into_async(&mut buf))
                },
                |_e: &Event| {},
                c.skip,
                n,
                {
                    let mut b2 = Vec::new();
                    block_on(r.read_to_end_into_async(n, &mut b2)).map(|_| ())
                }
            );
        }
        (true, 0) => {
            let mut r = NsReader::from_reader(&data[..]);
            apply_cfg(r.config_mut(), c.cfg);
            let mut flip = false;
            loop {
                flip = !flip;
                let res = if flip { r.read_resolved_event().map(|(_, e)| e) } else { r.read_event() };
                if let Ok(ev) = &res {
                    exercise(ev, r.decoder());
                    ns_exercise(&r, ev);
                }
                let res: Result<Event<'static>, Error> = res.map(|e| e.into_owned());
                if h.observe(&res, r.buffer_position(), r.error_position(), len) {
                    break;
                }
            }
        }
        (true, 1) => {
            let mut r = NsReader::from_reader(ChunkedBufRead::new(data, cuts_for(c)));
            apply_cfg(r.config_mut(), c.cfg);
            let mut buf = Vec::new();
            let mut flip = false;
            loop {
                flip = !flip;
                buf.clear();
                let res = if flip { r.read_resolved_event_into(&mut buf).map(|(_, e)| e.into_owned()) } else { r.read_event_into(&mut buf).map(|e| e.into_owned()) };
                if let Ok(ev) = &res {
                    exercise(ev, r.decoder());
                    ns_exercise(&r, ev);
                }
                if h.observe(&res, r.buffer_position(), r.error_position(), len) {
                    break;
                }
            }
        }
        (true, _) => {
            let mut r = NsReader::from_reader(ChunkedAsync::new(data, cuts_for(c), vec![c.pend; 8]));
            apply_cfg(r.config_mut(), c.cfg);
            let mut buf = Vec::new();
            let mut flip = false;
            loop {
                flip = !flip;
                buf.clear();
                let res = if flip { block_on(r.read_resolved_event_into_async(&mut buf)).map(|(_, e)| e.into_owned()) } else { block_on(r.read_event_into_async(&mut buf)).map(|e| e.into_owned()) };
                if let Ok(ev) = &res {
                    exercise(ev, r.decoder());
                    ns_exercise(&r, ev);
                }
                if h.observe(&res, r.buffer_position(), r.error_position(), len) {
                    break;
                }
            }
        }
    }
    if let Some(m) = h.fail {
        return Verdict::fail(format!("{} | cfg={}", m, cfg_show(c.cfg)));
    }
    let mut v = Verdict::pass(h.errors > 0 || h.nontext >= 2);
    v.classes.push(match (c.ns, c.source) {
        (false, 0) => "reader-slice",
        (false, 1) => "reader-buffered",
        (false, _) => "reader-async",
        (true, 0) => "nsreader-slice",
        (true, 1) => "nsreader-buffered",
        (true, _) => "nsreader-async",
    });
    if h.errors > 0 {
        v.classes.push("had-error");
    }
    if data.iter().any(|b| *b >= 0x80 || *b < 0x09) {
        v.classes.push("non-ascii-or-control-bytes");
    }
    v
}

fn ns_exercise<R>(r: &NsReader<R>, ev: &Event) {
    // the listing of the bindings in force can be taken at any event, whichever way (collect()
    // asks the iterator for its size hint)
    let (lo, hi) = r.prefixes().size_hint();
    let listed = r.prefixes().collect::<Vec<_>>().len();
    assert!(lo <= listed && hi.map_or(true, |h| h >= listed), "prefixes().size_hint() = ({}, {:?}) but {} bindings are listed", lo, hi, listed);
    let _ = r.resolve_attribute(quick_xml::name::QName(b"xml:lang"));
    match ev {
        Event::Start(s) | Event::Empty(s) => {
            let _ = r.resolve_element(s.name());
            let _ = r.resolve(s.name(), false);
            for a in s.attributes().with_checks(false).flatten() {
                let _ = r.resolve_attribute(a.key);
            }
            let _ = s.attributes().has_nil(r);
            let n = r.prefixes().count();
            assert!(n <= s.len() + 1_000_000);
        }
        Event::End(e) => {
            let _ = r.resolve_element(e.name());
            let _ = r.prefixes().count();
        }
        _ => {}
    }
}

/// markup bytes with 1-in-8 arbitrary bytes
fn biased_bytes(max: usize) -> impl Strategy<Value = Vec<u8>> {
    let b = prop_oneof![
        7 => prop::sample::select(b"<>/!?-[]'\" a=:xmlns&;#DOCTYPE\t\n".to_vec()),
        1 => any::<u8>(),
    ];
    prop::collection::vec(b, 0..=max)
}

fn case_strategy(input: impl Strategy<Value = Vec<u8>>) -> impl Strategy<Value = Case> {
    (input, 0u8..128, 0u8..3, 0u8..6, 0u8..3, any::<bool>(), prop_oneof![Just(0u8), any::<u8>()], prop_oneof![3 => Just(0u8), 1 => any::<u8>()]).prop_map(|(input, cfg, source, piece, pend, ns, skip, raw)| Case { input: B(input), cfg, source, piece, pend, ns, skip, raw })
}

fn run(ctx: &Ctx) {
    ctx.run_regress::<Case, _>(check);
    let seed = ctx.seed;
    let all: Vec<u8> = (0..=255u8).collect();
    let n = ctx.tier.pick(2, 3);
    let count = gen::exh_count(256, n);
    // every byte string, one rotated (configuration, source) per string; 6 variants for length <= 2
    let per = 6u64;
    ctx.run_indexed(
        "exh-all-bytes",
        count * per,
        |i| {
            let idx = i / per;
            if n == 3 && idx >= gen::exh_count(256, 2) && i % per != 0 {
                return None; // length 3: one variant per string
            }
            let mut r = SplitMix64::derive(seed, "c03-exh", i);
            let v = if n == 3 && idx >= gen::exh_count(256, 2) { r.below(6) } else { i % per };
            Some(Case { input: B(gen::exh_bytes(&all, idx)), cfg: (r.next() & 127) as u8, source: (v % 3) as u8, piece: 1 + r.below(2) as u8, pend: r.below(2) as u8, ns: v >= 3, skip: 0, raw: 0 })
        },
        check,
    );
    let m = ctx.tier.pick(5, 6);
    let mcount = gen::exh_count(13, m);
    ctx.run_indexed(
        "exh-markup-bytes",
        mcount,
        |i| {
            let mut r = SplitMix64::derive(seed, "c03-exh-markup", i);
            Some(Case { input: B(gen::exh_bytes(gen::SIGMA1, i)), cfg: (r.next() & 127) as u8, source: r.below(3) as u8, piece: r.below(4) as u8, pend: r.below(2) as u8, ns: r.chance(1, 2), skip: if r.chance(1, 3) { r.next() as u8 } else { 0 }, raw: if r.chance(1, 4) { r.next() as u8 } else { 0 } })
        },
        check,
    );
    ctx.run_proptest("biased-bytes", ctx.tier.pick(1_000_000, 8_000_000), case_strategy(biased_bytes(48)), check);
    let soup_with_junk = (gen::soup_strategy(14), prop::collection::vec((any::<u16>(), any::<u8>()), 0..4)).prop_map(|(mut s, junk)| {
        for (at, b) in junk {
            let k = crate::engine::scale(at, s.len() + 1);
            s.insert(k, b);
        }
        s
    });
    ctx.run_proptest("soup-with-arbitrary-bytes", ctx.tier.pick(500_000, 5_000_000), case_strategy(soup_with_junk), check);
    let corpus = gen::corpus();
    ctx.run_indexed("corpus", corpus.len() as u64 * 12, |i| {
        let k = i % 12;
        Some(Case { input: B(corpus[(i / 12) as usize].1.clone()), cfg: [0u8, 127, 104, 23][(k % 4) as usize], source: (k % 3) as u8, piece: [0, 1, 7][(k / 4) as usize], pend: (k % 2) as u8, ns: k >= 6, skip: [0u8, 0x55, 0xFF][(k % 3) as usize], raw: [0u8, 0, 0x24][(k % 3) as usize] })
    }, check);
    let small_corpus: Vec<&Vec<u8>> = corpus.iter().map(|c| &c.1).filter(|d| d.len() <= 4096).collect();
    let all_ref = &all;
    ctx.run_indexed_mode(
        "mutated-corpus",
        ctx.tier.pick(500_000u64, 4_000_000),
        false,
        |i| {
            let mut r = SplitMix64::derive(seed, "c03-mutate", i);
            let base = if r.chance(1, 2) && !small_corpus.is_empty() { (*r.pick(&small_corpus)).clone() } else { gen::soup_seeded(&mut r, 10) };
            let edits = 1 + r.below(4);
            let alpha: &[u8] = if r.chance(1, 2) { gen::SIGMA1 } else { all_ref };
            let input = gen::mutate(&mut r, &base, alpha, edits);
            Some(Case { input: B(input), cfg: (r.next() & 127) as u8, source: r.below(3) as u8, piece: r.below(8) as u8, pend: r.below(3) as u8, ns: r.chance(1, 2), skip: if r.chance(1, 3) { r.next() as u8 } else { 0 }, raw: if r.chance(1, 4) { r.next() as u8 } else { 0 } })
        },
        check,
    );
    // offset and length sweep, large inputs (see gen.rs): rotated configuration, source, reader kind
    let (pmax, qmax, vars) = ctx.tier.pick((130u64, 70u64, 1u64), (260, 140, 2));
    ctx.run_indexed(
        "offset-and-length-sweep",
        gen::sweep_count(pmax, qmax, vars),
        |i| {
            let mut r = SplitMix64::derive(seed, "c03-sweep", i);
            Some(Case { input: B(gen::sweep_nth(i, pmax, qmax, vars)), cfg: (r.next() & 127) as u8, source: (i % 3) as u8, piece: [0u8, 1, 7, 16, 33, 64][r.below(6) as usize], pend: r.below(2) as u8, ns: r.chance(1, 2), skip: if r.chance(1, 4) { r.next() as u8 } else { 0 }, raw: 0 })
        },
        check,
    );
    ctx.run_indexed(
        "large-inputs",
        gen::big_count() * 3,
        |i| {
            let mut r = SplitMix64::derive(seed, "c03-big", i);
            Some(Case { input: B(gen::big_nth(i / 3)), cfg: (r.next() & 127) as u8, source: (i % 3) as u8, piece: [0u8, 64, 255][r.below(3) as usize], pend: 0, ns: r.chance(1, 2), skip: 0, raw: 0 })
        },
        check,
    );
}

fn replay(_stage: &str, case: &Value) -> Result<Verdict, String> {
    let c: Case = serde_json::from_value(case.clone()).map_err(|e| e.to_string())?;
    Ok(check(&c))
}
