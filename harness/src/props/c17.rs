//! C17 — declared or detected encodings decode to the same content as UTF-8 (feature set full).

use super::PropInfo;
use crate::engine::{Ctx, Verdict};
use serde::{Deserialize, Serialize};
use serde_json::Value;

#[derive(Clone, Debug, Serialize, Deserialize, PartialEq)]
pub struct Case {
    pub encoding: String,
    /// character choices for: root attribute, text, comment, cdata, pi, child attribute, text 2
    pub parts: [Vec<u16>; 7],
    pub decl: bool,
    pub bom: bool,
    /// None = borrowing reader, Some(piece size) = chunked buffered reader (first piece >= 4)
    pub piece: Option<u8>,
    /// inject a byte sequence that is malformed in the encoding: 0 none, 1 into the text,
    /// 2 into the root attribute value, 3 a dangling lead byte as the last byte of the text,
    /// 4 a dangling lead byte as the last byte of the attribute value
    pub malformed: u8,
    /// 0 normal; 1 = Reader::from_str on the UTF-8 original whose declaration names `encoding`
    pub from_str: bool,
}

pub fn info() -> PropInfo {
    PropInfo {
        id: "C17",
        run,
        replay,
        rule: "cases = (encoding, document content, with/without declaration and UTF-8 BOM (UTF-8 only), slice or chunked source, optional malformed bytes, optional Reader::from_str mode). For each of the 36 ASCII-compatible encoding_rs encodings a document (declaration naming the encoding, root with attribute, text with references, comment, CDATA, PI, child with attribute, more text) is built from characters that round-trip through encoding_rs itself in that encoding, transcoded and read: event kinds as constructed; decoder().decode(payload), BytesText::unescape, decode_and_unescape_value return the original strings; decoder().encoding() is the declared one after the declaration; a BOM never appears in an event; bytes malformed in the encoding give Err (never U+FFFD); after Reader::from_str a declaration naming another encoding does not change the decoder. Non-trivial = at least one non-ASCII character was transcoded (or malformed bytes were injected).",
        assumptions: &["characters are drawn from those that round-trip through encoding_rs in the target encoding (e.g. U+2212 in EUC-JP does not)", "for multi-byte encodings whose trail bytes overlap ASCII, a character whose trail byte is ']' is not placed directly before ']]>' (written into the property)", "a UTF-8 BOM / missing declaration is only combined with UTF-8"],
        level: "exploration",
        variants: &["full"],
    }
}

#[cfg(not(feature = "full"))]
pub fn check(_c: &Case) -> Verdict {
    Verdict::excluded("feature-set-min")
}
#[cfg(not(feature = "full"))]
fn run(_ctx: &Ctx) {}

#[cfg(feature = "full")]
mod imp {
    use super::*;
    use crate::engine::{scale, B};
    use crate::rec::{apply_cfg, NEUTRAL};
    use crate::sources::ChunkedBufRead;
    use encoding_rs::Encoding;
    use proptest::prelude::*;
    use quick_xml::events::Event;
    use quick_xml::reader::Reader;
    use std::collections::HashMap;
    use std::sync::OnceLock;

    pub const LABELS: &[&str] = &[
        "UTF-8", "IBM866", "ISO-8859-2", "ISO-8859-3", "ISO-8859-4", "ISO-8859-5", "ISO-8859-6", "ISO-8859-7", "ISO-8859-8", "ISO-8859-8-I", "ISO-8859-10", "ISO-8859-13", "ISO-8859-14", "ISO-8859-15", "ISO-8859-16", "KOI8-R", "KOI8-U", "macintosh", "windows-874",
        "windows-1250", "windows-1251", "windows-1252", "windows-1253", "windows-1254", "windows-1255", "windows-1256", "windows-1257", "windows-1258", "x-mac-cyrillic", "GBK", "gb18030", "Big5", "EUC-JP", "Shift_JIS", "EUC-KR", "x-user-defined",
    ];

    pub struct Pool {
        pub enc: &'static Encoding,
        pub chars: Vec<char>,
        /// a byte sequence that does not decode in this encoding (if one exists)
        pub malformed: Option<Vec<u8>>,
        /// a single byte that cannot end a payload (dangling lead byte of a multi-byte sequence)
        pub dangling: Option<u8>,
    }

    fn candidates() -> Vec<char> {
        let mut v = vec![];
        let ranges: &[(u32, u32)] = &[(0xA0, 0x24F), (0x370, 0x3FF), (0x400, 0x4FF), (0x5D0, 0x5EA), (0x621, 0x64A), (0xE01, 0xE5B), (0x2010, 0x2030), (0x20AC, 0x20AC), (0x2190, 0x2199), (0x2500, 0x2570), (0x3041, 0x3096), (0x30A1, 0x30FA), (0x4E00, 0x5200), (0xAC00, 0xAE00), (0xF780, 0xF7FF), (0xFEFF, 0xFEFF), (0xFF01, 0xFF5E), (0x1F600, 0x1F64F)];
        for (a, b) in ranges {
            for u in *a..=*b {
                if let Some(c) = char::from_u32(u) {
                    v.push(c);
                }
            }
        }
        v
    }

    pub fn pools() -> &'static HashMap<&'static str, Pool> {
        static P: OnceLock<HashMap<&'static str, Pool>> = OnceLock::new();
        P.get_or_init(|| {
            let cands = candidates();
            let mut m = HashMap::new();
            for l in LABELS {
                let enc = match Encoding::for_label(l.as_bytes()) {
                    Some(e) if e.is_ascii_compatible() => e,
                    _ => continue,
                };
                let mut chars = vec![];
                for c in &cands {
                    let s = c.to_string();
                    let (bytes, _, bad) = enc.encode(&s);
                    if bad {
                        continue;
                    }
                    // no ASCII markup bytes may hide in the encoded form, except the documented `]`
                    if bytes.iter().any(|b| matches!(*b, b'<' | b'>' | b'&' | b'\'' | b'"' | b'?' | b'-' | b'=' | b'/' | b' ' | b'\t' | b'\n' | b'\r' | b';' | b'#')) {
                        continue;
                    }
                    match enc.decode_without_bom_handling_and_without_replacement(&bytes) {
                        Some(d) if d == s => chars.push(*c),
                        _ => {}
                    }
                }
                // malformed sequence search
                let mut malformed = None;
                'outer: for b1 in 0x80..=0xFFu8 {
                    for tail in [&[][..], &[0x20u8][..], &[0x80u8][..], &[0xFFu8][..], &[0x41u8][..]] {
                        let mut seq = vec![b1];
                        seq.extend_from_slice(tail);
                        if enc.decode_without_bom_handling_and_without_replacement(&seq).is_none() {
                            // keep it self-contained between two ASCII letters
                            let mut probe = b"x".to_vec();
                            probe.extend_from_slice(&seq);
                            probe.extend_from_slice(b"y");
                            if enc.decode_without_bom_handling_and_without_replacement(&probe).is_none() {
                                malformed = Some(seq);
                                break 'outer;
                            }
                        }
                    }
                }
                let mut dangling = None;
                for b1 in 0x81..=0xFEu8 {
                    let alone = enc.decode_without_bom_handling_and_without_replacement(&[b1]).is_none();
                    let after = enc.decode_without_bom_handling_and_without_replacement(&[b'x', b1]).is_none();
                    // it must really be a lead byte: followed by a valid trail byte it decodes
                    let lead = (0x40..=0xFEu8).any(|t| enc.decode_without_bom_handling_and_without_replacement(&[b1, t]).is_some());
                    if alone && after && lead {
                        dangling = Some(b1);
                        break;
                    }
                }
                m.insert(enc.name(), Pool { enc, chars, malformed, dangling });
            }
            m
        })
    }

    const ASCII_PIECES: &[&str] = &["a", "b c", "x", "1", "&amp;", "&lt;", "&#x41;", "&#65;", "_", "."];

    /// (raw content as written, expected after unescape)
    fn part(pool: &Pool, picks: &[u16], allow_refs: bool, cdata: bool) -> (String, String) {
        let mut raw = String::new();
        let mut un = String::new();
        for (k, p) in picks.iter().enumerate() {
            // now and then a payload STARTS with U+FEFF (where the encoding has it): inside a payload it
            // is an ordinary character, only the document's first three bytes are a byte-order mark
            if k == 0 && *p % 11 == 3 && pool.chars.binary_search(&'\u{feff}').is_ok() {
                raw.push('\u{feff}');
                un.push('\u{feff}');
            }
            if k % 3 == 2 || pool.chars.is_empty() {
                let piece = ASCII_PIECES[*p as usize % ASCII_PIECES.len()];
                if piece.starts_with('&') {
                    if !allow_refs {
                        continue;
                    }
                    raw.push_str(piece);
                    un.push_str(match piece {
                        "&amp;" => "&",
                        "&lt;" => "<",
                        _ => "A",
                    });
                } else {
                    raw.push_str(piece);
                    un.push_str(piece);
                }
            } else {
                let c = pool.chars[scale(*p, pool.chars.len())];
                raw.push(c);
                un.push(c);
            }
        }
        if cdata {
            // a character whose trail byte is `]` must not stand directly before `]]>`
            if let Some(last) = raw.chars().last() {
                let last_s = last.to_string();
                let (bytes, _, _) = pool.enc.encode(&last_s);
                if bytes.last() == Some(&b']') {
                    raw.push('z');
                    un.push('z');
                }
            }
        }
        (raw, un)
    }

    pub fn check(c: &Case) -> Verdict {
        let pool = match pools().get(c.encoding.as_str()) {
            Some(p) => p,
            None => return Verdict::excluded("unknown-encoding"),
        };
        let enc = pool.enc;
        let is_utf8 = enc == encoding_rs::UTF_8;
        let decl = c.decl || !is_utf8;
        let bom = c.bom && is_utf8;
        let (attr, attr_u) = part(pool, &c.parts[0], true, false);
        let (text, text_u) = part(pool, &c.parts[1], true, false);
        let (comment, _) = part(pool, &c.parts[2], false, false);
        let (cdata, _) = part(pool, &c.parts[3], false, true);
        let (pi, _) = part(pool, &c.parts[4], false, false);
        let (attr2, attr2_u) = part(pool, &c.parts[5], true, false);
        let (text2, text2_u) = part(pool, &c.parts[6], true, false);
        let text = format!("t{}", text);
        let text_u = format!("t{}", text_u);
        let text2 = format!("u{}", text2);
        let text2_u = format!("u{}", text2_u);
        let pi = format!("pi {}", pi.replace(' ', "_"));
        let mut doc = String::new();
        if decl {
            doc.push_str(&format!("<?xml version=\"1.0\" encoding=\"{}\"?>", enc.name()));
        }
        doc.push_str(&format!("<root a=\"{}\">{}<!--{}--><![CDATA[{}]]><?{}?><child b='{}'/>{}</root>", attr, text, comment, cdata, pi, attr2, text2));
        let nonascii = !doc.is_ascii();
        let long_payload = c.parts.iter().any(|p| p.len() >= 500);

        if c.from_str {
            // an encoding fixed by constructing the reader from a string is not overridden
            // also with a leading U+FEFF (the string form of a byte-order mark)
            let doc = if c.bom { format!("\u{feff}{}", doc) } else { doc.clone() };
            let mut r = Reader::from_str(&doc);
            apply_cfg(r.config_mut(), NEUTRAL);
            loop {
                match r.read_event() {
                    Ok(Event::Eof) => break,
                    Ok(Event::Text(t)) => match t.unescape() {
                        Ok(s) if s == text_u || s == text2_u => {}
                        other => return Verdict::fail(format!("from_str: text decodes to {:?}, expected {:?} or {:?} | doc {:?}", other, text_u, text2_u, doc)),
                    },
                    Ok(_) => {}
                    Err(e) => return Verdict::fail(format!("from_str: error {:?} | doc {:?}", e, doc)),
                }
                if r.decoder().encoding() != encoding_rs::UTF_8 {
                    return Verdict::fail(format!("Reader::from_str: the decoder became {} because of the declaration | doc {:?}", r.decoder().encoding().name(), doc));
                }
            }
            return Verdict::pass(nonascii).class("from_str-keeps-utf8");
        }

        let (encoded, _, had_errors) = enc.encode(&doc);
        if had_errors {
            return Verdict::excluded("document-not-representable");
        }
        let mut bytes: Vec<u8> = vec![];
        if bom {
            bytes.extend_from_slice(&[0xEF, 0xBB, 0xBF]);
        }
        bytes.extend_from_slice(&encoded);
        let mut malformed_where = 0u8;
        if c.malformed >= 3 {
            // a dangling lead byte as the LAST byte of the text (3) / of the attribute value (4)
            if let Some(b) = pool.dangling {
                let needle: Vec<u8> = if c.malformed == 3 { b"<!--".to_vec() } else { b"\">t".to_vec() };
                if let Some(p) = bytes.windows(needle.len()).position(|w| w == &needle[..]) {
                    bytes.insert(p, b);
                    malformed_where = if c.malformed == 3 { 1 } else { 2 };
                }
            }
        } else if c.malformed > 0 {
            if let Some(seq) = &pool.malformed {
                let needle: &[u8] = if c.malformed == 1 { b">t" } else { b"a=\"" };
                if let Some(p) = bytes.windows(needle.len()).position(|w| w == needle) {
                    let at = p + needle.len();
                    let mut ins = seq.clone();
                    ins.push(b'y');
                    bytes.splice(at..at, ins);
                    malformed_where = c.malformed;
                }
            }
        }

        // read
        struct Got {
            kind: &'static str,
            payload: Vec<u8>,
            attrs: Vec<(Vec<u8>, Result<String, String>)>,
            decoded: Result<String, String>,
            unescaped: Option<Result<String, String>>,
            enc_after: &'static str,
        }
        let mut got: Vec<Got> = vec![];
        macro_rules! pump {
            ($r:ident, $read:expr) => {{
                apply_cfg($r.config_mut(), NEUTRAL);
                for _ in 0..64 {
                    let ev = $read;
                    let dec = $r.decoder();
                    let ev = match ev {
                        Ok(Event::Eof) => break,
                        Ok(e) => e,
                        Err(e) => return Verdict::fail(format!("reader error {:?} | {} bytes {:?}", e, enc.name(), B::show(&bytes))),
                    };
                    // the event is the same event - decoder included - after every ownership / copy conversion
                    if let Some(d) = crate::rec::conversion_defect(&ev) {
                        return Verdict::fail(format!("{} | {} bytes {:?}", d, enc.name(), B::show(&bytes)));
                    }
                    let payload: Vec<u8> = ev.to_vec();
                    let decoded = dec.decode(&payload).map(|s| s.into_owned()).map_err(|e| e.to_string());
                    let mut into = String::from("#");
                    let decoded_into = dec.decode_into(&payload, &mut into).map(|_| into[1..].to_string()).map_err(|e| e.to_string());
                    if decoded.is_ok() != decoded_into.is_ok() || (decoded.is_ok() && decoded.as_ref().ok() != decoded_into.as_ref().ok()) {
                        return Verdict::fail(format!("Decoder::decode gives {:?} but Decoder::decode_into gives {:?} for payload {:?} in {}", decoded, decoded_into, B::show(&payload), enc.name()));
                    }
                    let mut attrs = vec![];
                    let (kind, unescaped) = match &ev {
                        Event::Start(s) | Event::Empty(s) => {
                            for a in s.attributes().with_checks(false).flatten() {
                                attrs.push((a.key.as_ref().to_vec(), a.decode_and_unescape_value(dec).map(|s| s.into_owned()).map_err(|e| e.to_string())));
                            }
                            (if matches!(ev, Event::Start(_)) { "Start" } else { "Empty" }, None)
                        }
                        Event::End(_) => ("End", None),
                        Event::Text(t) => ("Text", Some(t.unescape().map(|s| s.into_owned()).map_err(|e| e.to_string()))),
                        Event::Comment(_) => ("Comment", None),
                        Event::CData(cd) => {
                            // the three escape() flavours turn the section into a text event; unescaping
                            // that must give what decoding the section gives
                            let want = dec.decode(&payload).map(|s| s.into_owned()).ok();
                            for (which, t) in [("escape", cd.clone().escape()), ("partial_escape", cd.clone().partial_escape()), ("minimal_escape", cd.clone().minimal_escape())] {
                                let back = t.map_err(|e| e.to_string()).and_then(|t| t.unescape().map(|s| s.into_owned()).map_err(|e| e.to_string()));
                                if let Some(w) = &want {
                                    if back.as_ref().ok() != Some(w) {
                                        return Verdict::fail(format!("BytesCData::{}() then unescape() gives {:?}, decoding the section gives {:?} | {} bytes {:?}", which, back, w, enc.name(), B::show(&bytes)));
                                    }
                                }
                            }
                            ("CData", None)
                        }
                        Event::PI(_) => ("PI", None),
                        Event::Decl(_) => ("Decl", None),
                        Event::DocType(_) => ("DocType", None),
                        Event::Eof => ("Eof", None),
                    };
                    got.push(Got { kind, payload, attrs, decoded, unescaped, enc_after: $r.decoder().encoding().name() });
                }
            }};
        }
        match c.piece {
            None => {
                let mut r = Reader::from_reader(&bytes[..]);
                // before every third call the reader is replaced by a clone of itself: the copy knows the
                // encoding the original has found out
                let mut calls = 0usize;
                pump!(r, {
                    calls += 1;
                    if calls % 3 == 2 {
                        let copy = r.clone();
                        r = copy;
                    }
                    r.read_event()
                });
            }
            Some(p) => {
                // the encoding sniff looks at the first piece only (the exception written into C02): with
                // a byte-order mark the first piece has at least 4 bytes. Without one the sniff finds
                // nothing in a short first piece and the declaration must still take effect.
                let cuts: Vec<usize> = crate::sources::cuts_fixed(p as usize, bytes.len()).into_iter().filter(|x| *x >= 4 || !c.bom).collect();
                let mut r = Reader::from_reader(ChunkedBufRead::new(&bytes, cuts));
                let mut buf = Vec::new();
                pump!(r, {
                    buf.clear();
                    r.read_event_into(&mut buf).map(|e| e.into_owned())
                });
            }
        }
        let mut want: Vec<(&str, String)> = vec![];
        if decl {
            want.push(("Decl", format!("xml version=\"1.0\" encoding=\"{}\"", enc.name())));
        }
        want.push(("Start", format!("root a=\"{}\"", attr)));
        want.push(("Text", text.clone()));
        want.push(("Comment", comment.clone()));
        want.push(("CData", cdata.clone()));
        want.push(("PI", pi.clone()));
        want.push(("Empty", format!("child b='{}'", attr2)));
        want.push(("Text", text2.clone()));
        want.push(("End", "root".to_string()));
        let kinds: Vec<&str> = got.iter().map(|g| g.kind).collect();
        let wkinds: Vec<&str> = want.iter().map(|w| w.0).collect();
        let ctx = || format!("{} decl={} bom={} piece={:?} | utf-8 original {:?} | bytes {:?}", enc.name(), decl, bom, c.piece, doc, B::show(&bytes));
        if kinds != wkinds {
            return Verdict::fail(format!("event kinds {:?}, expected {:?} | {}", kinds, wkinds, ctx()));
        }
        let mut saw_malformed_err = false;
        for (k, (g, w)) in got.iter().zip(want.iter()).enumerate() {
            // (only meaningful for UTF-8 input with a BOM: in ISO-8859-10 the three bytes EF BB BF
            // are the ordinary characters "ïŧŋ")
            if bom && g.payload.starts_with(&[0xEF, 0xBB, 0xBF]) && !w.1.starts_with('\u{feff}') {
                return Verdict::fail(format!("event {} carries the byte-order mark | {}", k, ctx()));
            }
            if decl && g.enc_after != enc.name() {
                return Verdict::fail(format!("after event {} ({}) the decoder is {}, the declaration says {} | {}", k, g.kind, g.enc_after, enc.name(), ctx()));
            }
            let in_text = malformed_where == 1 && k == if decl { 2 } else { 1 };
            let in_attr = malformed_where == 2 && g.kind == "Start";
            if in_text || in_attr {
                // malformed bytes: decoding must fail, never replace
                let results: Vec<&Result<String, String>> = if in_text { vec![&g.decoded, g.unescaped.as_ref().unwrap()] } else { vec![&g.decoded, &g.attrs[0].1] };
                for r in results {
                    match r {
                        Err(_) => saw_malformed_err = true,
                        Ok(s) => return Verdict::fail(format!("malformed bytes decoded to {:?}{} instead of an error | {}", s, if s.contains('\u{FFFD}') { " (with U+FFFD)" } else { "" }, ctx())),
                    }
                }
                continue;
            }
            match &g.decoded {
                Ok(s) if *s == w.1 => {}
                other => return Verdict::fail(format!("event {} ({}): decode gives {:?}, expected {:?} | {}", k, g.kind, other, w.1, ctx())),
            }
            if let Some(u) = &g.unescaped {
                let wu = if k == if decl { 2 } else { 1 } { &text_u } else { &text2_u };
                match u {
                    Ok(s) if s == wu => {}
                    other => return Verdict::fail(format!("event {}: unescape gives {:?}, expected {:?} | {}", k, other, wu, ctx())),
                }
            }
            if g.kind == "Start" || g.kind == "Empty" {
                let wa = if g.kind == "Start" { &attr_u } else { &attr2_u };
                match g.attrs.first() {
                    Some((_, Ok(s))) if s == wa => {}
                    other => return Verdict::fail(format!("event {}: attribute value gives {:?}, expected {:?} | {}", k, other.map(|x| &x.1), wa, ctx())),
                }
            }
        }
        let mut v = Verdict::pass(nonascii || saw_malformed_err);
        if saw_malformed_err {
            v.classes.push("malformed-bytes-rejected");
        }
        if bom {
            v.classes.push("utf8-bom");
        }
        if !decl {
            v.classes.push("no-declaration");
        }
        if c.piece.is_some() {
            v.classes.push("chunked");
        }
        if !enc.is_single_byte() && !is_utf8 {
            v.classes.push("multi-byte-legacy");
            if long_payload {
                v.classes.push("multi-byte-legacy-payload->=1024-bytes");
            }
        }
        v
    }

    pub fn run(ctx: &Ctx) {
        ctx.run_regress::<Case, _>(check);
        let names: Vec<&'static str> = {
            let mut n: Vec<&'static str> = pools().keys().copied().collect();
            n.sort();
            n
        };
        ctx.note_stage("encodings", serde_json::json!({"count": names.len(), "pool_sizes": names.iter().map(|n| (n.to_string(), pools()[n].chars.len())).collect::<Vec<_>>(), "with_malformed_sequence": names.iter().filter(|n| pools()[*n].malformed.is_some()).count(), "with_dangling_lead_byte": names.iter().filter(|n| pools()[*n].dangling.is_some()).count()}));
        let per = ctx.tier.pick(10_000u64, 150_000);
        let seed = ctx.seed;
        let names2 = names.clone();
        ctx.run_indexed_mode(
            "every-encoding-x-documents",
            names.len() as u64 * per,
            false,
            |i| {
                let enc = names2[(i / per) as usize];
                let mut r = crate::engine::SplitMix64::derive(seed, "c17", i);
                let mut parts: [Vec<u16>; 7] = Default::default();
                // one document in thirty has long payloads (600..1600 characters: beyond 1024 / 2048 /
                // 4096 encoded bytes, with every alignment of the multi-byte characters)
                let long = r.chance(1, 30);
                for p in parts.iter_mut() {
                    let n = if long && r.chance(1, 2) { 600 + r.below(1000) } else { r.below(6) };
                    *p = (0..n).map(|_| r.next() as u16).collect();
                }
                let mode = r.below(10);
                Some(Case { encoding: enc.to_string(), parts, decl: r.chance(3, 4), bom: r.chance(1, 3), piece: if r.chance(1, 2) { None } else { Some(r.below(8) as u8) }, malformed: if mode < 4 { 1 + (mode as u8) } else { 0 }, from_str: mode == 9 })
            },
            check,
        );
        let names3 = names.clone();
        let strat = move || {
            let names3 = names3.clone();
            Box::new(
                (prop::sample::select(names3), prop::array::uniform7(prop_oneof![60 => prop::collection::vec(any::<u16>(), 0..6), 1 => prop::collection::vec(any::<u16>(), 500..1400)]), any::<bool>(), any::<bool>(), prop::option::of(0u8..8), 0u8..9, prop::bool::weighted(0.1))
                    .prop_map(|(enc, parts, decl, bom, piece, m, from_str)| Case { encoding: enc.to_string(), parts, decl, bom, piece, malformed: if m < 5 { m } else { 0 }, from_str }),
            )
        };
        ctx.run_proptest_with("proptest-documents", ctx.tier.pick(500_000, 5_000_000), strat, check);
    }
}

#[cfg(feature = "full")]
pub use imp::check;
#[cfg(feature = "full")]
fn run(ctx: &Ctx) {
    imp::run(ctx)
}

fn replay(_stage: &str, case: &Value) -> Result<Verdict, String> {
    let c: Case = serde_json::from_value(case.clone()).map_err(|e| e.to_string())?;
    Ok(check(&c))
}
