//! C11 — attribute iteration yields exactly the tag's attributes or the documented error.

use super::PropInfo;
use crate::attrmodel::{model, Item};
use crate::engine::{scale, Ctx, Verdict, B};
use proptest::prelude::*;
use quick_xml::events::attributes::Attributes;
use quick_xml::events::Event;
use quick_xml::reader::Reader;
use serde::{Deserialize, Serialize};
use serde_json::Value;

#[derive(Clone, Debug, Serialize, Deserialize, PartialEq)]
pub struct Case {
    /// tag content: name `t` followed by the attribute text
    pub content: B,
    pub html: bool,
    pub checks: bool,
    /// obtain the iterator from a start tag read by the reader instead of Attributes::new/html
    pub via_reader: bool,
    /// bit k set: before the k-th call of next() (k < 16) the current setting is asserted again
    /// with `with_checks(checks)` - a call that must not change anything
    #[serde(default)]
    pub reassert: u16,
}

pub const F4: &str = "F4-duplicate-recovery";

pub fn info() -> PropInfo {
    PropInfo {
        id: "C11",
        run,
        replay,
        rule: "cases = (tag content 't'+s, XML/HTML mode, duplicate checking on/off, iterator from Attributes::new/html or from a start event read by the reader). Enumerated: every s up to length N over {space, tab, =, \", ', a, b, /}; generated: attribute lists (1-7 attributes, both quote kinds, arbitrary spacing, values with blanks/other quote/=/>) with injected faults (missing '=', missing value, unquoted value, unterminated quote, repeated key), also faults after faults. The reference model predicts every item (key bytes, value bytes, error variant and positions) and the iterator must then return None on three further calls. Non-trivial = at least two attributes of which at least one is faulty and at least one well-formed one comes after a faulty one. Keys / values up to 80 bytes and lists of 20..50 attributes occur; in a third of the generated cases the current setting is asserted again with with_checks(current) before chosen next() calls, which must not change anything. Keys include ones that start with or contain multi-byte characters (two of them sharing their first byte), also as the repeated key. When checking is wanted, every other case relies on the documented default (on) of the four constructors instead of calling with_checks(true).",
        assumptions: &["a '=' in key-start position (e.g. `t =x`) is an undocumented input class: only totality and termination are checked there (counted as excluded: ambiguous-eq-at-key-start)", "keys that take part in duplicate detection are the keys that were followed by '=' plus, in HTML mode, value-less keys"],
        level: "exploration",
        variants: &["full"],
    }
}

fn collect(mut it: Attributes, cap: usize, checks: bool, reassert: u16) -> Result<Vec<Item>, String> {
    let mut out = vec![];
    let mut k = 0;
    // the iterator is cloned before one of its first calls (which one is a pure function of the
    // input size) and the iteration continues on the copy: a copy is an iterator in the same state
    let clone_at = cap % 7;
    loop {
        if k == clone_at {
            let copy = it.clone();
            it = copy;
        }
        if k < 16 && reassert >> k & 1 == 1 {
            it.with_checks(checks);
        }
        k += 1;
        match it.next() {
            None => break,
            Some(Ok(a)) => out.push(Item::Attr(a.key.as_ref().to_vec(), a.value.to_vec())),
            Some(Err(e)) => out.push(Item::Err(e)),
        }
        if out.len() > cap {
            return Err(format!("iterator yields more than {} items", cap));
        }
    }
    for k in 0..3 {
        if let Some(x) = it.next() {
            return Err(format!("iterator returned {:?} on call {} after None", x.map(|a| (a.key.as_ref().to_vec(), a.value.to_vec())), k + 1));
        }
    }
    Ok(out)
}

/// `Attributes::has_nil` in the middle of an iteration is a piece of that iteration: it looks at the
/// following attributes up to the first one that says nil=true (errors are skipped), and the
/// iteration then goes on behind it exactly as if those items had been taken with next().
fn has_nil_is_part_of_the_iteration(s: &str, html: bool, checks: bool, plain: &[Item]) -> Result<bool, String> {
    use quick_xml::reader::NsReader;
    let mut ns = NsReader::from_str("<x xmlns:xsi='http://www.w3.org/2001/XMLSchema-instance' xmlns:i='http://www.w3.org/2001/XMLSchema-instance'>");
    if !matches!(ns.read_event(), Ok(Event::Start(_))) {
        return Err("cannot set up the namespace-aware reader".into());
    }
    let j = (s.len() % 3).min(plain.len());
    let says_nil = |i: &Item| match i {
        Item::Attr(k, v) => (k == b"xsi:nil" || k == b"i:nil") && quick_xml::events::attributes::Attribute::from((&k[..], &v[..])).as_bool() == Some(true),
        _ => false,
    };
    let hit = plain[j..].iter().position(says_nil);
    let mut it = if html { Attributes::html(s, 1) } else { Attributes::new(s, 1) };
    it.with_checks(checks);
    let mut got: Vec<Item> = vec![];
    for _ in 0..j {
        match it.next() {
            Some(Ok(a)) => got.push(Item::Attr(a.key.as_ref().to_vec(), a.value.to_vec())),
            Some(Err(e)) => got.push(Item::Err(e)),
            None => break,
        }
    }
    let answer = it.has_nil(&ns);
    if answer != hit.is_some() {
        return Err(format!("has_nil after {} items of tag content {:?} answers {}, the items behind say {}", j, s, answer, hit.is_some()));
    }
    let resume = match hit {
        Some(h) => j + h + 1,
        None => plain.len(),
    };
    let mut rest = vec![];
    while let Some(x) = it.next() {
        rest.push(match x {
            Ok(a) => Item::Attr(a.key.as_ref().to_vec(), a.value.to_vec()),
            Err(e) => Item::Err(e),
        });
        if rest.len() > s.len() + 1 {
            return Err("iterator does not end after has_nil".into());
        }
    }
    if got[..] != plain[..j] || rest[..] != plain[resume..] {
        return Err(format!("{} mode, checks {}: tag content {:?}: has_nil after {} items (answer {}), then the iteration gives {:?}; without the call the items from there are {:?}", if html { "HTML" } else { "XML" }, checks, s, j, answer, show(&rest), show(&plain[resume..])));
    }
    Ok(hit.is_some())
}

pub fn check(c: &Case) -> Verdict {
    let s = match std::str::from_utf8(&c.content.0) {
        Ok(s) => s,
        Err(_) => return Verdict::excluded("not-utf8"),
    };
    let bytes = s.as_bytes();
    let cap = bytes.len() + 1;
    let got = if c.via_reader {
        let mut doc = Vec::with_capacity(bytes.len() + 2);
        doc.push(b'<');
        doc.extend_from_slice(bytes);
        doc.push(b'>');
        let mut r = Reader::from_reader(&doc[..]);
        match r.read_event() {
            Ok(Event::Start(e)) if &*e == bytes => {
                // ... from the event as read, or from an owned / re-borrowed copy of it
                let owned;
                let e = match bytes.len() % 3 {
                    0 => e,
                    1 => {
                        owned = e.to_owned();
                        owned.borrow()
                    }
                    _ => e.into_owned(),
                };
                let mut it = if c.html { e.html_attributes() } else { e.attributes() };
                // checking is ON by default (documented): when it is wanted, every other case relies on
                // the default instead of asking for it
                if !(c.checks && c.content.0.len() % 2 == 0) {
                    it.with_checks(c.checks);
                }
                collect(it, cap, c.checks, c.reassert)
            }
            _ => return Verdict::excluded("content-is-not-one-start-tag"),
        }
    } else {
        let mut it = if c.html { Attributes::html(s, 1) } else { Attributes::new(s, 1) };
        if !(c.checks && c.content.0.len() % 2 == 0) {
            it.with_checks(c.checks);
        }
        collect(it, cap, c.checks, c.reassert)
    };
    let got = match got {
        Ok(g) => g,
        Err(m) => return Verdict::fail(m),
    };
    // through the reader the attributes start after the tag name (which ends at the first blank)
    let start = if c.via_reader { crate::refxml::name_len(bytes) } else { 1 };
    let want = match model(bytes, start, c.html, c.checks) {
        Some(w) => w,
        None => return Verdict::excluded("ambiguous-eq-at-key-start"),
    };
    let faulty_idx = want.iter().position(|i| matches!(i, Item::Err(_)));
    let good_after = faulty_idx.map_or(false, |f| want[f + 1..].iter().any(|i| matches!(i, Item::Attr(..))));
    let mut v = Verdict::pass(want.len() >= 2 && good_after);
    for i in &want {
        if let Item::Err(e) = i {
            v.classes.push(match e {
                quick_xml::events::attributes::AttrError::ExpectedEq(_) => "expected-eq",
                quick_xml::events::attributes::AttrError::ExpectedValue(_) => "expected-value",
                quick_xml::events::attributes::AttrError::UnquotedValue(_) => "unquoted-value",
                quick_xml::events::attributes::AttrError::ExpectedQuote(..) => "expected-quote",
                quick_xml::events::attributes::AttrError::Duplicated(..) => "duplicated",
            });
        }
    }
    v.classes.sort();
    v.classes.dedup();
    if let Some(f) = faulty_idx {
        if matches!(want[f], Item::Err(quick_xml::events::attributes::AttrError::Duplicated(..))) && good_after {
            v.classes.push("good-attribute-after-duplicate");
        }
    }
    if c.reassert != 0 {
        v.classes.push("setting-asserted-again-between-calls");
    }
    if want.len() >= 20 {
        v.classes.push(">=20-attributes");
    }
    if bytes.len() >= 128 {
        v.classes.push("tag-content->=128-bytes");
    }
    if got == want && !c.via_reader && s.contains("nil") {
        match has_nil_is_part_of_the_iteration(s, c.html, c.checks, &got) {
            Ok(true) => v.classes.push("has_nil-called-mid-iteration-answers-true"),
            Ok(false) => v.classes.push("has_nil-called-mid-iteration-answers-false"),
            Err(m) => {
                v.nontrivial = true;
                v.fail = Some(m);
                return v;
            }
        }
    }
    if got != want {
        v.nontrivial = true;
        v.fail = Some(format!("{} mode, checks {}: tag content {:?}: expected {:?}, iterator gave {:?}", if c.html { "HTML" } else { "XML" }, c.checks, s, show(&want), show(&got)));
    }
    v
}

fn show(v: &[Item]) -> Vec<String> {
    v.iter()
        .map(|i| match i {
            Item::Attr(k, val) => format!("{}={:?}", String::from_utf8_lossy(k), String::from_utf8_lossy(val)),
            Item::Err(e) => format!("{:?}", e),
        })
        .collect()
}

pub const ALPHA: &[u8] = b" \t=\"'ab/";
pub const ALPHA2: &[u8] = b" \n\r\x0c=\"'a";

// ---- generated attribute lists with injected faults

#[derive(Clone, Debug)]
struct GenAttr {
    key: u8,
    sp1: u8,
    sp2: u8,
    quote: u8,
    value: u8,
    fault: u8,
    lead: u8,
}

const KEYS: &[&str] = &[
    "a", "b", "ab", "k", "a:b", "xmlns", "xmlns:p", "K",
    // long keys (block-wise scanners), keys that share long prefixes
    "k234567890123456", "k2345678901234567", "a-key-that-is-longer-than-thirty-two-bytes", "a-key-that-is-longer-than-thirty-two-bytez",
    "k0", "k1", "k2", "k3", "k4", "k5", "k6", "k7", "k8", "k9", "k10", "k11", "k12", "k13", "k14", "k15", "k16", "k17", "k18", "k19",
    // keys that start with / contain multi-byte characters (two of them share their first byte)
    "\u{e9}", "\u{e9}t\u{e9}", "\u{43a}\u{43b}\u{44e}\u{447}", "\u{65e5}\u{672c}", "k\u{e9}", "\u{e8}",
    // the schema-instance attribute and look-alikes (Attributes::has_nil in the middle of an iteration)
    "xsi:nil", "nil", "xmlns:xsi",
];
const SPACES: &[&str] = &["", "", " ", "\t", " \n "];
const VALUES: &[&str] = &[
    "", "v", "x y", " lead", "trail ", "a=b", ">", "it's", "say \"hi\"", "a b=\"c\" d", "&amp;", "/",
    "0123456789abcde", "0123456789abcdef", "0123456789abcdef0", "a value that is longer than thirty-two bytes =\"x\"", "a value of more than sixty-four bytes, with an apostrophe ' and > and = inside it ...",
    "true", "1", "false", "http://www.w3.org/2001/XMLSchema-instance",
];

fn render(attrs: &[GenAttr]) -> String {
    let mut s = String::from("t");
    for a in attrs {
        s.push_str(["", " ", " ", "  ", "\t", "\n"][a.lead as usize % 6]);
        if a.lead % 6 == 0 && a.fault != 9 {
            s.push(' ');
        }
        let key = KEYS[a.key as usize % KEYS.len()];
        let val = VALUES[a.value as usize % VALUES.len()];
        let (q, val) = if a.quote % 2 == 0 { ('"', val.replace('"', "'")) } else { ('\'', val.replace('\'', "\"")) };
        let sp1 = SPACES[a.sp1 as usize % SPACES.len()];
        let sp2 = SPACES[a.sp2 as usize % SPACES.len()];
        match a.fault {
            // missing `=` and value
            1 => s.push_str(key),
            // missing value
            2 => {
                s.push_str(key);
                s.push_str(sp1);
                s.push('=');
            }
            // unquoted value
            3 => {
                s.push_str(key);
                s.push_str(sp1);
                s.push('=');
                s.push_str(sp2);
                let bare: String = val.chars().filter(|c| !c.is_whitespace() && *c != '"' && *c != '\'').collect();
                s.push_str(if bare.is_empty() { "v" } else { &bare });
            }
            // unterminated quote
            4 => {
                s.push_str(key);
                s.push_str(sp1);
                s.push('=');
                s.push_str(sp2);
                s.push(q);
                s.push_str(&val);
            }
            _ => {
                s.push_str(key);
                s.push_str(sp1);
                s.push('=');
                s.push_str(sp2);
                s.push(q);
                s.push_str(&val);
                s.push(q);
            }
        }
    }
    s
}

fn attr_strategy() -> impl Strategy<Value = GenAttr> {
    (prop_oneof![6 => 0u8..8, 2 => 8u8..32, 1 => 32u8..38, 1 => 38u8..41], 0u8..5, 0u8..5, 0u8..2, prop_oneof![4 => 0u8..12, 1 => 12u8..17, 1 => 17u8..21], prop_oneof![6 => Just(0u8), 1 => Just(1u8), 1 => Just(2u8), 1 => Just(3u8), 1 => Just(4u8)], 0u8..6).prop_map(|(key, sp1, sp2, quote, value, fault, lead)| GenAttr { key, sp1, sp2, quote, value, fault, lead })
}

fn run(ctx: &Ctx) {
    ctx.run_regress::<Case, _>(check);
    let n = ctx.tier.pick(7, 9);
    let count = crate::gen::exh_count(8, n);
    ctx.run_indexed(
        "exh-tag-content-x-modes",
        count * 4,
        |i| {
            let mut content = vec![b't'];
            content.extend(crate::gen::exh_bytes(ALPHA, i / 4));
            Some(Case { content: B(content), html: i % 2 == 1, checks: (i / 2) % 2 == 1, via_reader: false, reassert: if i % 7 == 3 { (i / 7) as u16 } else { 0 } })
        },
        check,
    );
    // second alphabet: all four XML blanks and a form feed (not an XML blank: part of keys/values)
    let n2 = ctx.tier.pick(6, 7);
    let count2 = crate::gen::exh_count(ALPHA2.len() as u64, n2);
    ctx.run_indexed(
        "exh-tag-content-alphabet2-x-modes",
        count2 * 4,
        |i| {
            let mut content = vec![b't'];
            content.extend(crate::gen::exh_bytes(ALPHA2, i / 4));
            Some(Case { content: B(content), html: i % 2 == 1, checks: (i / 2) % 2 == 1, via_reader: false, reassert: if i % 7 == 3 { (i / 7) as u16 } else { 0 } })
        },
        check,
    );
    let m = ctx.tier.pick(6, 7);
    let mcount = crate::gen::exh_count(8, m);
    ctx.run_indexed(
        "exh-tag-content-via-reader",
        mcount * 4,
        |i| {
            let mut content = vec![b't'];
            content.extend(crate::gen::exh_bytes(ALPHA, i / 4));
            Some(Case { content: B(content), html: i % 2 == 1, checks: (i / 2) % 2 == 1, via_reader: true, reassert: if i % 7 == 3 { (i / 7) as u16 } else { 0 } })
        },
        check,
    );
    let strat = (prop_oneof![30 => prop::collection::vec(attr_strategy(), 1..8), 1 => prop::collection::vec(attr_strategy(), 20..50)], any::<bool>(), any::<bool>(), any::<bool>(), prop::option::of((any::<u16>(), any::<u16>())), prop_oneof![2 => Just(0u16), 1 => any::<u16>()]).prop_map(|(attrs, html, checks, via_reader, dup, reassert)| {
        let mut attrs = attrs;
        // inject a repeated key: copy the key of one attribute onto another
        if let Some((a, b)) = dup {
            let (ia, ib) = (scale(a, attrs.len()), scale(b, attrs.len()));
            let k = attrs[ia].key;
            attrs[ib].key = k;
        }
        Case { content: B(render(&attrs).into_bytes()), html, checks, via_reader, reassert }
    });
    ctx.run_proptest("generated-attribute-lists-with-faults", ctx.tier.pick(2_000_000, 12_000_000), strat, check);
}

fn replay(_stage: &str, case: &Value) -> Result<Verdict, String> {
    let c: Case = serde_json::from_value(case.clone()).map_err(|e| e.to_string())?;
    Ok(check(&c))
}
