//! C14 — deserializing from a string and from any reader gives the same result.

use super::c07::{apply_edits, edit_strategy, VOCAB};
use super::PropInfo;
use crate::engine::{scale, Ctx, Verdict};
use crate::sources::ChunkedBufRead;
use crate::types::*;
use proptest::prelude::*;
use serde::{Deserialize, Serialize};
use serde_json::Value;

#[derive(Clone, Debug, Serialize, Deserialize, PartialEq)]
pub struct Case {
    pub ty: Ty,
    pub input: String,
    pub cuts: Vec<usize>,
}

/// the same comparison for the further target types of C07 (tuples, Options, maps, sequences of
/// Options, IgnoredAny, ...), compared through their Debug rendering
#[derive(Clone, Debug, Serialize, Deserialize, PartialEq)]
pub struct ExtraCase {
    pub target: super::c07::Target,
    pub input: String,
    pub cuts: Vec<usize>,
}

/// does the text contain an `encoding=` pseudo-attribute naming something else than UTF-8? Such a
/// document is outside the property ("every UTF-8 document not declaring another encoding"): with
/// the `encoding` feature the reader entry point honours the label, from_str never does
pub fn declares_other_encoding(s: &str) -> bool {
    let l = s.to_ascii_lowercase();
    let mut from = 0;
    while let Some(i) = l[from..].find("encoding") {
        let rest = l[from + i + 8..].trim_start();
        if let Some(rest) = rest.strip_prefix('=') {
            let rest = rest.trim_start();
            let label: String = rest.chars().skip(1).take_while(|c| *c != '"' && *c != '\'').collect();
            if (rest.starts_with('"') || rest.starts_with('\'')) && label != "utf-8" && label != "utf8" {
                return true;
            }
        }
        from += i + 8;
    }
    false
}

pub fn check_extra(c: &ExtraCase) -> Verdict {
    if crate::refxml::is_utf16_like(c.input.as_bytes()) {
        return Verdict::excluded("utf16-signature");
    }
    if declares_other_encoding(&c.input) {
        return Verdict::excluded("declares-another-encoding");
    }
    let cuts = super::c02::normalise_cuts(c.input.as_bytes(), &c.cuts);
    let a = super::c07::try_de_debug(&c.target, &c.input, None);
    let b = super::c07::try_de_debug(&c.target, &c.input, Some(cuts.clone()));
    let interesting = c.input.contains("<![CDATA[") || c.input.contains("<!--") || c.input.contains("<?") || c.input.contains("<!DOCTYPE") || c.input.contains('&') || c.input.contains("nil");
    match (&a, &b) {
        (Ok(x), Ok(y)) if x == y => Verdict::pass(interesting).class("extra-target-both-ok"),
        (Err(_), Err(_)) => Verdict::pass(interesting).class("extra-target-both-err"),
        _ => Verdict::fail(format!("target {:?}: from_str gives {:?}, from_reader (cuts {:?}) gives {:?} | input {:?}", c.target, a, cuts, b, c.input)),
    }
}

/// generated target types (dynde scripts): both entry points must show the visitors the same things
pub fn check_dyn(c: &super::c07::DynCase) -> Verdict {
    use crate::dynde;
    if crate::refxml::is_utf16_like(c.input.as_bytes()) {
        return Verdict::excluded("utf16-signature");
    }
    if declares_other_encoding(&c.input) {
        return Verdict::excluded("declares-another-encoding");
    }
    let budget = super::c07::dyn_budget(c);
    dynde::set_budget(budget);
    let cuts = super::c02::normalise_cuts(c.input.as_bytes(), c.cuts.as_deref().unwrap_or(&[]));
    let mut over_a = false;
    let mut steps = 0;
    let both = std::panic::catch_unwind(std::panic::AssertUnwindSafe(|| {
        let a = dynde::from_str(&c.script, &c.input);
        over_a = dynde::overrun();
        steps = dynde::steps();
        dynde::set_budget(budget);
        let b = dynde::from_reader(&c.script, ChunkedBufRead::new(c.input.as_bytes(), cuts.clone()));
        (a, b)
    }));
    let (a, b) = match both {
        Ok(x) => x,
        Err(p) => {
            let msg = crate::engine::panic_message(&p);
            if super::c07::is_f10_panic(&msg, &c.script) {
                return Verdict::excluded("known finding F10 of C07 (visitor stops early, End event at unreachable!)");
            }
            return Verdict::fail(format!("panic: {} | script {:?} | input {:?}", msg, c.script, c.input));
        }
    };
    if over_a || dynde::overrun() {
        return Verdict::excluded("visitor-step-budget-exhausted (reported by C07)");
    }
    let interesting = steps >= 3 && (c.input.contains("<![CDATA[") || c.input.contains("<!--") || c.input.contains("<?") || c.input.contains("<!DOCTYPE") || c.input.contains('&') || c.input.contains("nil") || steps >= 8);
    match (&a, &b) {
        (Ok(x), Ok(y)) if x == y => Verdict::pass(interesting).class("scripted-target-both-ok"),
        (Err(_), Err(_)) => Verdict::pass(interesting).class("scripted-target-both-err"),
        _ => Verdict::fail(format!("scripted target: from_str gives {:?}, from_reader (cuts {:?}) gives {:?} | script {:?} | input {:?}", a, cuts, b, c.script, c.input)),
    }
}

pub fn info() -> PropInfo {
    PropInfo {
        id: "C14",
        run,
        replay,
        rule: "cases = (target type, UTF-8 document, cut set); targets are the 20 family types (values compared with ==) and the 26 further targets of C07 (compared through their Debug rendering). Documents: valid ones (serialized generated values), token-level mutations of them and token soup (C07's generators), and valid documents after C15's information-preserving rewrites (text split by CDATA/comments/PIs, references, re-quoted attributes, unknown content). Chunkings: piece sizes 1, 2, 3, 7, whole, and random cut sets through the harness-owned BufRead. Oracle: from_str and from_reader either both fail or both succeed with equal values (error values are not compared). Non-trivial = the document contains mixed text/CDATA, a comment/PI/DOCTYPE, a reference or an element the type skips (i.e. the deserializer has to merge text, skip subtrees or unescape), or the result is Err after at least three tokens. Every third document also goes through Deserializer::from_str_with_resolver / Deserializer::with_resolver with the default resolver: same outcome as from_str / from_reader.",
        assumptions: &["the document does not declare a non-UTF-8 encoding and does not start with a UTF-16 byte-order mark or the UTF-16 `<?` signature (the documented auto-detection would treat it as UTF-16 when read from a reader)", "when the document starts with a byte-order mark the first piece has at least 4 bytes (the sniff looks only at the first piece, cf. C02)"],
        level: "exploration",
        variants: &["full", "min"],
    }
}

pub fn check(c: &Case) -> Verdict {
    // a document that starts with a UTF-16 signature is, by the documented detection algorithm,
    // not a UTF-8 document for the reader entry point (from_str fixes UTF-8): outside the domain
    if crate::refxml::is_utf16_like(c.input.as_bytes()) {
        return Verdict::excluded("utf16-signature");
    }
    if declares_other_encoding(&c.input) {
        return Verdict::excluded("declares-another-encoding");
    }
    let a = c.ty.from_str(&c.input);
    let cuts = super::c02::normalise_cuts(c.input.as_bytes(), &c.cuts);
    let b = c.ty.from_reader(ChunkedBufRead::new(c.input.as_bytes(), cuts.clone()));
    // the constructors that take an entity resolver, given the default resolver, are the same two
    // entry points (every third document)
    let via_resolver = c.input.len() % 3 == 0;
    if via_resolver {
        let a2 = c.ty.from_str_with_resolver(&c.input);
        let b2 = c.ty.from_reader_with_resolver(ChunkedBufRead::new(c.input.as_bytes(), cuts.clone()));
        let same = |x: &Result<crate::types::Val, quick_xml::DeError>, y: &Result<crate::types::Val, quick_xml::DeError>| match (x, y) {
            (Ok(p), Ok(q)) => p == q,
            (Err(_), Err(_)) => true,
            _ => false,
        };
        if !same(&a, &a2) {
            return Verdict::fail(format!("from_str gives {:?}, Deserializer::from_str_with_resolver(PredefinedEntityResolver) gives {:?} | input {:?}", a.as_ref().map_err(|e| e.to_string()), a2.as_ref().map_err(|e| e.to_string()), c.input));
        }
        if !same(&b, &b2) {
            return Verdict::fail(format!("from_reader gives {:?}, Deserializer::with_resolver(PredefinedEntityResolver) gives {:?} (cuts {:?}) | input {:?}", b.as_ref().map_err(|e| e.to_string()), b2.as_ref().map_err(|e| e.to_string()), cuts, c.input));
        }
    }
    let ntoks = crate::refxml::lex(c.input.as_bytes()).len();
    let interesting = c.input.contains("<![CDATA[") || c.input.contains("<!--") || c.input.contains("<?") || c.input.contains("<!DOCTYPE") || c.input.contains('&');
    let mut v = Verdict::pass(false);
    if via_resolver {
        v.classes.push("also-through-the-constructors-with-an-entity-resolver");
    }
    match (&a, &b) {
        (Ok(x), Ok(y)) => {
            if x != y {
                return Verdict::fail(format!("from_str gives {:?}, from_reader (cuts {:?}) gives {:?} | input {:?}", x, cuts, y, c.input));
            }
            v.nontrivial = interesting;
            v.classes.push("both-ok");
        }
        (Err(_), Err(_)) => {
            v.nontrivial = interesting || ntoks >= 3;
            v.classes.push("both-err");
        }
        (x, y) => {
            return Verdict::fail(format!("from_str gives {:?}, from_reader (cuts {:?}) gives {:?} | input {:?}", x.as_ref().map_err(|e| e.to_string()), cuts, y.as_ref().map_err(|e| e.to_string()), c.input));
        }
    }
    v
}

/// well-formed pieces that a deserializer skips, merges or trims
pub const NOISE: &[&str] = &[
    "<zz><x>1</x>t</zz>", "<zz>t<x/></zz>", "<zz><x>1</x>\n </zz>", "<zz>\n <x>1</x>\n</zz>", "<zz/>", "<zz a=\"1\"><![CDATA[c]]><q/></zz>", "<zz><zz>t</zz>u</zz>",
    "<zz xmlns:xsi=\"http://www.w3.org/2001/XMLSchema-instance\" xsi:nil=\"true\">c<x/></zz>", "<u/>", "<us>text<x/></us>",
    " ", "\n  ", " t", " tail", "\tx ", "t ", " 42", "<![CDATA[ c]]>", "<![CDATA[]]>", "<!-- c -->", "<?pi d?>", " &amp; ", "&#32;", "&#x20;t",
];

const XSI: &str = "http://www.w3.org/2001/XMLSchema-instance";

/// `<r xmlns:xsi=XSI ...>` items `</r>`; item kind 0 = skipped unknown element, 1 = optional field
pub fn nil_template(items: &[(u8, u16, u16, u16)], rootsel: u16) -> String {
    let root_decl = [format!(" xmlns:xsi=\"{}\"", XSI), format!(" xmlns:xsi=\"{}\" xmlns:n=\"{}\"", XSI, XSI), String::new(), format!(" xmlns:n=\"{}\"", XSI)];
    let mut s = format!("<r{}>", root_decl[scale(rootsel, root_decl.len())]);
    let decls = [
        "".to_string(), " xmlns:xsi=\"urn:x\"".to_string(), " xmlns:xsi=\"\"".to_string(), " xmlns:n=\"urn:y\"".to_string(), " xmlns:xsi=\"urn:x\" xmlns:n=\"urn:y\"".to_string(), " xmlns=\"urn:d\"".to_string(),
        // redundant re-declarations of the XSI namespace itself (same prefix, other prefixes)
        format!(" xmlns:xsi=\"{}\"", XSI), format!(" xmlns:n=\"{}\"", XSI), format!(" xmlns:p=\"{}\"", XSI), format!(" xmlns:p=\"{}\" xmlns:xsi=\"{}\"", XSI, XSI),
    ];
    let inners = ["", "t", "<zz/>", "<zz>t</zz>", "<zz><zz>x</zz></zz>", "<zz a=\"1\"/><zz b=\"2\"/>", "t<zz>u</zz>", "<e><e>x</e></e>", "<b/><c/>", "<zz xmlns:xsi=\"urn:z\"><zz/></zz>", "<![CDATA[c]]><zz/>"];
    let nils = [
        "", " xsi:nil=\"true\"", " n:nil=\"true\"", " xsi:nil=\"false\"", " xsi:nil=\"1\"", " nil=\"true\"",
        // a second attribute of the XSI namespace next to the nil attribute, in both orders
        " xsi:type=\"T\" xsi:nil=\"true\"", " xsi:nil=\"true\" xsi:type=\"T\"", " n:schemaLocation=\"u v\" n:nil=\"true\"", " xsi:nil=\"false\" xsi:type='T'", " k=\"1\" xsi:nil='true' j=\"2\"", " nil=\"false\" xsi:nil=\"true\"",
    ];
    let contents = ["2", "t", "", "<v>x</v>", "<Unit/>"];
    let names = ["a", "b", "c", "d"];
    for (kind, x, y, z) in items {
        if *kind == 0 {
            s.push_str(&format!("<zz{}>{}</zz>", decls[scale(*x, decls.len())], inners[scale(*y, inners.len())]));
        } else {
            let n = names[scale(*x, names.len())];
            s.push_str(&format!("<{}{}>{}</{}>", n, nils[scale(*y, nils.len())], contents[scale(*z, contents.len())], n));
        }
    }
    s.push_str("</r>");
    s
}

fn cuts_strategy() -> impl Strategy<Value = (u8, Vec<u16>)> {
    (0u8..8, prop::collection::vec(any::<u16>(), 0..8))
}

fn make_cuts(len: usize, sel: u8, rnd: &[u16]) -> Vec<usize> {
    match sel {
        0 => crate::sources::cuts_fixed(1, len),
        1 => crate::sources::cuts_fixed(2, len),
        2 => crate::sources::cuts_fixed(3, len),
        3 => crate::sources::cuts_fixed(7, len),
        4 => vec![],
        _ => rnd.iter().map(|c| scale(*c, len + 1)).collect(),
    }
}

fn run(ctx: &Ctx) {
    ctx.run_regress::<Case, _>(check);
    let valid_and_mutated = || {
        Box::new((any_val(), opts_strategy(), prop::collection::vec(edit_strategy(), 0..4), cuts_strategy()).prop_map(|(val, opts, edits, (sel, rnd))| {
            let doc = val.serialize_with(&opts).unwrap_or_else(|_| "<r/>".to_string());
            let mut input = apply_edits(&doc, &edits);
            // a byte-order mark in front of one document in sixteen (removed by both entry points)
            if rnd.first().map_or(false, |x| x % 16 == 5) {
                input.insert(0, '\u{feff}');
            }
            let cuts = make_cuts(input.len(), sel, &rnd);
            Case { ty: val.ty(), input, cuts }
        }))
    };
    ctx.run_proptest_with("valid-and-mutated-documents", ctx.tier.pick(1_000_000, 10_000_000), valid_and_mutated, check);
    // valid documents after information-preserving rewrites (C15's rewriter): text split by CDATA
    // sections, comments and PIs, references, attribute re-quoting, unknown content — the shapes
    // in which the two event readers have the most work to do
    let rewritten = || {
        Box::new((any_val(), 0u8..3, any::<bool>(), prop::collection::vec(super::c15::rw_strategy(), 1..6), cuts_strategy()).prop_map(|(val, level, expand_empty, rws, (sel, rnd))| {
            let opts = SerOpts { level, indent: None, expand_empty, root: None };
            let mut doc = val.serialize_with(&opts).unwrap_or_else(|_| "<r/>".to_string());
            for rw in &rws {
                if let Some(d) = super::c15::apply(val.ty(), &doc, rw) {
                    doc = d;
                }
            }
            let cuts = make_cuts(doc.len(), sel, &rnd);
            Case { ty: val.ty(), input: doc, cuts }
        }))
    };
    ctx.run_proptest_with("rewritten-valid-documents", ctx.tier.pick(800_000, 8_000_000), rewritten, check);
    // well-formed noise: unknown subtrees (with text, nested elements, CDATA, xsi:nil) and blank or
    // blank-led text inserted at token boundaries of valid documents; the value may change or the
    // document may become invalid for the type — both entry points must still agree
    let noisy = || {
        Box::new((any_val(), 0u8..3, prop::collection::vec((any::<u16>(), any::<u16>()), 1..5), prop::collection::vec(super::c15::rw_strategy(), 0..3), cuts_strategy()).prop_map(|(val, level, noise, rws, (sel, rnd))| {
            let opts = SerOpts { level, indent: None, expand_empty: false, root: None };
            let mut doc = val.serialize_with(&opts).unwrap_or_else(|_| "<r/>".to_string());
            for rw in &rws {
                if let Some(d) = super::c15::apply(val.ty(), &doc, rw) {
                    doc = d;
                }
            }
            for (at, what) in &noise {
                let toks = crate::refxml::lex(doc.as_bytes());
                if toks.is_empty() {
                    break;
                }
                // insert after the first token at the earliest, before the last at the latest
                let k = 1 + scale(*at, toks.len().saturating_sub(1).max(1));
                let pos = toks.get(k).map_or(doc.len(), |l| l.start);
                if !doc.is_char_boundary(pos) {
                    continue;
                }
                let piece = NOISE[scale(*what, NOISE.len())];
                doc.insert_str(pos, piece);
            }
            let cuts = make_cuts(doc.len(), sel, &rnd);
            Case { ty: val.ty(), input: doc, cuts }
        }))
    };
    ctx.run_proptest_with("valid-documents-with-well-formed-noise", ctx.tier.pick(800_000, 8_000_000), noisy, check);
    // the further target types of C07, on its base documents with edits (incl. attribute injection)
    let extra = || {
        Box::new((prop::sample::select(super::c07::ALL_EXTRA.to_vec()), any::<u16>(), prop::collection::vec(edit_strategy(), 0..4), prop::collection::vec((any::<u16>(), any::<u16>()), 0..3), cuts_strategy()).prop_map(|(target, base, edits, noise, (sel, rnd))| {
            let mut doc = apply_edits(super::c07::EXTRA_DOCS[scale(base, super::c07::EXTRA_DOCS.len())], &edits);
            for (at, what) in &noise {
                let pos = scale(*at, doc.len() + 1);
                if doc.is_char_boundary(pos) {
                    doc.insert_str(pos, NOISE[scale(*what, NOISE.len())]);
                }
            }
            let cuts = make_cuts(doc.len(), sel, &rnd);
            ExtraCase { target, input: doc, cuts }
        }))
    };
    ctx.run_proptest_with("extra-targets", ctx.tier.pick(600_000, 6_000_000), extra, check_extra);
    // namespace-sensitive templates: skipped (unknown) elements that nest same-named elements and
    // (re)bind or unbind the prefixes used for xsi:nil, interleaved with optional fields carrying
    // prefix:nil attributes — xsi:nil is resolved through the namespace scope, which the two event
    // readers maintain separately while skipping
    let nil = || {
        Box::new((prop::collection::vec((0u8..2, any::<u16>(), any::<u16>(), any::<u16>()), 1..6), prop::sample::select(vec![super::c07::Target::OptHolder, super::c07::Target::NestedOpts, super::c07::Target::ValueOptInner, super::c07::Target::HashMapStr, super::c07::Target::Ignored]), any::<u16>(), cuts_strategy()).prop_map(|(items, target, rootsel, (sel, rnd))| {
            let doc = nil_template(&items, rootsel);
            let cuts = make_cuts(doc.len(), sel, &rnd);
            ExtraCase { target, input: doc, cuts }
        }))
    };
    ctx.run_proptest_with("nil-and-skip-templates", ctx.tier.pick(600_000, 5_000_000), nil, check_extra);
    ctx.run_proptest_with("scripted-targets", ctx.tier.pick(800_000, 6_000_000), || Box::new(super::c07::dyn_case_strategy(false)), check_dyn);
    ctx.run_proptest_with("scripted-targets-x-token-soup", ctx.tier.pick(200_000, 2_000_000), || Box::new(super::c07::dyn_case_strategy(true)), check_dyn);
    ctx.run_proptest_with("scripted-targets-x-nil-documents", ctx.tier.pick(300_000, 3_000_000), || Box::new(super::c07::dyn_nil_strategy()), check_dyn);
    let soup = || {
        Box::new((prop::collection::vec(any::<u16>(), 0..14), prop::sample::select(ALL_TYPES.to_vec()), cuts_strategy()).prop_map(|(ws, ty, (sel, rnd))| {
            let input = ws.iter().map(|w| VOCAB[scale(*w, VOCAB.len())]).collect::<Vec<_>>().concat();
            let cuts = make_cuts(input.len(), sel, &rnd);
            Case { ty, input, cuts }
        }))
    };
    ctx.run_proptest_with("token-soup", ctx.tier.pick(400_000, 5_000_000), soup, check);
}

fn replay(stage: &str, case: &Value) -> Result<Verdict, String> {
    if case.get("script").is_some() {
        let c: super::c07::DynCase = serde_json::from_value(case.clone()).map_err(|e| e.to_string())?;
        return Ok(check_dyn(&c));
    }
    if stage == "extra-targets" || case.get("target").is_some() {
        let c: ExtraCase = serde_json::from_value(case.clone()).map_err(|e| e.to_string())?;
        return Ok(check_extra(&c));
    }
    let c: Case = serde_json::from_value(case.clone()).map_err(|e| e.to_string())?;
    Ok(check(&c))
}
