//! C19 — indentation adds only whitespace between markup and never touches content.

use super::PropInfo;
use crate::engine::{Ctx, Verdict, B};
use crate::evgen::*;
use crate::rec::*;
use crate::sources::{block_on, PartialSink};
use proptest::prelude::*;
use quick_xml::events::Event;
use quick_xml::writer::Writer;
use serde::{Deserialize, Serialize};
use serde_json::Value;

#[derive(Clone, Debug, Serialize, Deserialize, PartialEq)]
pub struct Case {
    pub events: Vec<EvSpec>,
    pub indent_char: u8,
    pub indent_size: u8,
    /// async sink: max bytes per write, pending mask
    pub sink: (u8, u64),
}

pub fn info() -> PropInfo {
    PropInfo {
        id: "C19",
        run,
        replay,
        rule: "cases = (sequence of events over all ten kinds, balanced or not, Eof only last; indent char in {space, tab, LF}; width 0..9; async sink schedule). (a) the indented output must parse, event by event, as [optional newline + indent characters] + exactly the plain bytes of that event, the optional part only before a markup event whose predecessor is not Text/CData; (b) reading both outputs and dropping whitespace-only text gives equal event streams; (c) the async writer produces the same bytes as the sync writer (plain and indented). Also serde: indented and plain serializations of generated values deserialize to equal values (stage serde). Non-trivial = the sequence has markup directly after text/CDATA and markup directly after markup. The indenting writer is also run through a synchronous sink with partial (plain / vectored) and interrupted writes: same bytes as into a Vec. The indenting writer is also cloned after a chosen number of events and the sequence finished on the clone: same bytes, no panic.",
        assumptions: &["event payloads are built through the public constructors within their preconditions (text escaped, comment/PI/CDATA content free of their terminators) so that reading back is meaningful", "insertion is optional wherever it is allowed; the amount of indentation is not asserted"],
        level: "exploration",
        variants: &["full"],
    }
}

fn flatten(specs: &[EvSpec]) -> Vec<Event<'static>> {
    specs.iter().flat_map(|s| build_events(s)).collect()
}

fn write_all(events: &[Event<'static>], indent: Option<(u8, usize)>) -> Result<Vec<u8>, String> {
    let mut w = match indent {
        Some((c, n)) => Writer::new_with_indent(Vec::new(), c, n),
        None => Writer::new(Vec::new()),
    };
    for e in events {
        w.write_event(e.borrow()).map_err(|e| format!("write_event failed: {}", e))?;
    }
    Ok(w.into_inner())
}

fn write_all_partial(events: &[Event<'static>], indent: Option<(u8, usize)>, sink: (u8, u64)) -> Result<Vec<u8>, String> {
    let s = crate::sources::PartialSyncSink::new(sink.0 as usize, sink.1);
    let mut w = match indent {
        Some((c, n)) => Writer::new_with_indent(s, c, n),
        None => Writer::new(s),
    };
    for e in events {
        w.write_event(e.borrow()).map_err(|e| format!("write_event failed on a sink with partial writes: {}", e))?;
    }
    Ok(w.into_inner().out)
}

fn write_all_async(events: &[Event<'static>], indent: Option<(u8, usize)>, sink: (u8, u64)) -> Result<Vec<u8>, String> {
    let s = PartialSink::new(sink.0 as usize, sink.1);
    let mut w = match indent {
        Some((c, n)) => Writer::new_with_indent(s, c, n),
        None => Writer::new(s),
    };
    for e in events {
        block_on(w.write_event_async(e.borrow())).map_err(|e| format!("write_event_async failed: {}", e))?;
    }
    Ok(w.into_inner().out)
}

fn significant(recs: &[Rec]) -> Vec<Ev> {
    recs.iter().map(|r| r.ev.clone()).filter(|e| !matches!(e, Ev::Text(t) if t.iter().all(|b| crate::refxml::ws(*b)))).filter(|e| *e != Ev::Eof).collect()
}

pub fn check(c: &Case) -> Verdict {
    let events = flatten(&c.events);
    let indent = Some((c.indent_char, c.indent_size as usize));
    let plain = match write_all(&events, None) {
        Ok(p) => p,
        Err(m) => return Verdict::fail(m),
    };
    let ind = match write_all(&events, indent) {
        Ok(p) => p,
        Err(m) => return Verdict::fail(m),
    };
    // (a) byte-level parse
    let mut cur = 0usize;
    let mut prev_textual = false; // predecessor is Text/CData
    let mut after_text_markup = false;
    let mut after_markup_markup = false;
    let mut insertions = 0u32;
    let mut max_insert = 0usize;
    let mut prev_markup = false;
    for (i, e) in events.iter().enumerate() {
        let pi = match write_all(std::slice::from_ref(e), None) {
            Ok(p) => p,
            Err(m) => return Verdict::fail(m),
        };
        let textual = matches!(e, Event::Text(_) | Event::CData(_));
        let is_markup = !textual && !matches!(e, Event::Eof);
        if is_markup && prev_textual {
            after_text_markup = true;
        }
        if is_markup && prev_markup {
            after_markup_markup = true;
        }
        if ind[cur..].starts_with(&pi) && !(is_markup && !prev_textual && ind[cur..].starts_with(b"\n") && !pi.starts_with(b"\n")) {
            cur += pi.len();
        } else if is_markup && !prev_textual && ind[cur..].starts_with(b"\n") {
            let mut k = cur + 1;
            while k < ind.len() && ind[k] == c.indent_char && !ind[k..].starts_with(&pi) {
                k += 1;
            }
            // when the indent char could also start the event bytes, prefer the longest indent
            if !ind[k..].starts_with(&pi) {
                return Verdict::fail(format!("event {} ({:?}): after newline+indent the indented output does not continue with the event's plain bytes {:?}; indented output: {:?}", i, e, B::show(&pi), B::show(&ind)));
            }
            insertions += 1;
            max_insert = max_insert.max(k - cur - 1);
            cur = k + pi.len();
        } else {
            return Verdict::fail(format!(
                "event {} ({:?}): indented output at offset {} is {:?}..., expected {}the plain bytes {:?}; plain: {:?}; indented: {:?}",
                i,
                e,
                cur,
                B::show(&ind[cur..ind.len().min(cur + 24)]),
                if is_markup && !prev_textual { "optional newline+indent and " } else { "(no insertion allowed here) " },
                B::show(&pi),
                B::show(&plain),
                B::show(&ind)
            ));
        }
        if !matches!(e, Event::Eof) {
            prev_textual = textual;
            prev_markup = is_markup;
        }
    }
    if cur != ind.len() {
        return Verdict::fail(format!("indented output has {} trailing bytes: {:?}", ind.len() - cur, B::show(&ind[cur..])));
    }
    // (b) read both back
    let rp = read_slice(&plain, NEUTRAL);
    let ri = read_slice(&ind, NEUTRAL);
    if significant(&rp) != significant(&ri) {
        return Verdict::fail(format!("reading back differs: plain {:?} -> {} | indented {:?} -> {}", B::show(&plain), show_recs(&rp), B::show(&ind), show_recs(&ri)));
    }
    // the synchronous writers through a sink with partial (plain / vectored) and interrupted writes
    match write_all_partial(&events, indent, c.sink) {
        Ok(a) if a == ind => {}
        Ok(a) => return Verdict::fail(format!("indenting writer through a sink with partial writes produced {:?}, into a Vec {:?}", B::show(&a), B::show(&ind))),
        Err(m) => return Verdict::fail(m),
    }
    // a writer CLONED in the middle of the sequence carries on exactly like the original
    {
        let at = (c.sink.1 as usize) % (events.len() + 1);
        let r = std::panic::catch_unwind(std::panic::AssertUnwindSafe(|| -> Result<Vec<u8>, String> {
            let mut w = Writer::new_with_indent(Vec::new(), c.indent_char, c.indent_size as usize);
            for e in &events[..at] {
                w.write_event(e.borrow()).map_err(|e| format!("write_event failed: {}", e))?;
            }
            let mut w2 = w.clone();
            for e in &events[at..] {
                w2.write_event(e.borrow()).map_err(|e| format!("write_event failed on the cloned writer: {}", e))?;
            }
            Ok(w2.into_inner())
        }));
        match r {
            Ok(Ok(a)) if a == ind => {}
            Ok(Ok(a)) => return Verdict::fail(format!("an indenting writer cloned after {} events produced {:?}, the original {:?}", at, B::show(&a), B::show(&ind))),
            Ok(Err(m)) => return Verdict::fail(m),
            Err(p) => {
                let msg = p.downcast_ref::<String>().cloned().or_else(|| p.downcast_ref::<&str>().map(|s| s.to_string())).unwrap_or_default();
                return Verdict::fail(format!("an indenting writer cloned after {} events panics: {}", at, msg));
            }
        }
    }
    // (c) async == sync
    match write_all_async(&events, None, c.sink) {
        Ok(a) if a == plain => {}
        Ok(a) => return Verdict::fail(format!("async plain writer output {:?} differs from sync {:?}", B::show(&a), B::show(&plain))),
        Err(m) => return Verdict::fail(m),
    }
    match write_all_async(&events, indent, c.sink) {
        Ok(a) if a == ind => {}
        Ok(a) => return Verdict::fail(format!("async indenting writer output {:?} differs from sync {:?}", B::show(&a), B::show(&ind))),
        Err(m) => return Verdict::fail(m),
    }
    let mut v = Verdict::pass(after_text_markup && after_markup_markup);
    if insertions > 0 {
        v.classes.push("has-insertions");
    }
    if max_insert > 128 {
        v.classes.push("indent-beyond-128-bytes");
    }
    if c.indent_size == 0 {
        v.classes.push("width-0");
    }
    if c.sink.0 & 0x80 != 0 {
        v.classes.push("async-sink-with-partial-vectored-writes");
    }
    v
}

fn seq_strategy() -> impl Strategy<Value = Vec<EvSpec>> {
    let normal = (prop::collection::vec(spec_strategy(0), 0..40), any::<bool>()).prop_map(|(mut v, eof)| {
        if eof {
            v.push(EvSpec::Eof);
        }
        v
    });
    // deep: many nested starts (past the 128 preallocated indent bytes), then events, then ends
    let deep = (20usize..200, prop::collection::vec(spec_strategy(0), 0..6), 0usize..220).prop_map(|(depth, mid, ends)| {
        let mut v: Vec<EvSpec> = (0..depth).map(|_| EvSpec::Start("d".into(), vec![])).collect();
        v.extend(mid);
        v.extend((0..ends).map(|_| EvSpec::End("d".into())));
        v.push(EvSpec::Empty("after".into(), vec![]));
        v
    });
    // runs of ends at depth 0
    let ends = (prop::collection::vec(spec_strategy(0), 0..6), 1usize..12, prop::collection::vec(spec_strategy(0), 0..6)).prop_map(|(a, n, b)| {
        let mut v = a;
        v.extend((0..n).map(|_| EvSpec::End("e".into())));
        v.extend(b);
        v
    });
    prop_oneof![6 => normal, 1 => deep, 1 => ends]
}

fn run(ctx: &Ctx) {
    ctx.run_regress::<Case, _>(check);
    ctx.run_regress::<super::c19_serde::DynCase, _>(super::c19_serde::check_dyn);
    let strat = || Box::new((seq_strategy(), prop::sample::select(vec![b' ', b'\t', b'\n']), 0u8..10, ((1u8..25, any::<bool>()).prop_map(|(m, v)| m | if v { 0x80 } else { 0 }), any::<u64>())).prop_map(|(events, indent_char, indent_size, sink)| Case { events, indent_char, indent_size, sink }));
    ctx.run_proptest_with("event-sequences", ctx.tier.pick(300_000, 4_000_000), strat, check);
    super::c19_serde::run(ctx);
}

fn replay(stage: &str, case: &Value) -> Result<Verdict, String> {
    if stage.starts_with("serde") {
        return super::c19_serde::replay(case);
    }
    let c: Case = serde_json::from_value(case.clone()).map_err(|e| e.to_string())?;
    Ok(check(&c))
}
