//! C06 — serialize-then-deserialize returns the original value.

use super::PropInfo;
use crate::engine::{Ctx, Verdict};
use crate::types::*;
use proptest::prelude::*;
use serde::{Deserialize, Serialize};
use serde_json::Value;

#[derive(Clone, Debug, Serialize, Deserialize, PartialEq)]
pub struct Case {
    pub value: Val,
    pub opts: SerOpts,
}

pub fn info() -> PropInfo {
    PropInfo {
        id: "C06",
        run,
        replay,
        rule: "cases = (value of one of 20 derive(Serialize, Deserialize) types covering the mapping table: attributes, child elements, $text, optional fields skipped when None, element lists, xs:list in attribute and text, unit/newtype/struct enum variants in $value, mixed $value lists of element and text choices, nested structs, maps with name-like keys, tuples, newtypes, units, top-level enums, numeric extremes, recursive trees; serializer options: 3 quote levels x indent none/space/tab width 0-4 x expand-empty x root renamed or not). Oracle: serialization returns Ok and from_str of the output equals the value. Non-trivial = a string payload contains a character that some quote level escapes, or the value holds a non-empty list/enum/optional. Strings of 16..300 characters, lists of 20..200 items, chains nested 20..60 deep and a list of structs with struct-typed fields (Rows) occur among the values. One type has a `$value` list whose text choice is a TUPLE variant (`#[serde(rename = \"$text\")] T(u16, i8)`, written and read as an xs:list). Cases without indentation are also serialized through one of the convenience entry points (to_string / to_string_with_root / to_writer / to_writer_with_root / to_utf8_io_writer, their own default options) and round-tripped.",
        assumptions: &[
            "element/text strings and chars have no leading/trailing XML whitespace (documented trimming); attribute strings are unrestricted",
            "xs:list items are non-empty and free of XML whitespace; mixed lists never hold two adjacent text items or an empty text item (documented)",
            "`$text`/`$value` string fields and list fields carry #[serde(default)]; floats are finite",
        ],
        level: "exploration",
        variants: &["full", "min"],
    }
}

pub fn check(c: &Case) -> Verdict {
    let xml = match c.value.serialize_with(&c.opts) {
        Ok(x) => x,
        Err(e) => return Verdict::fail(format!("serialization failed: {} | value {:?} | opts {:?}", e, c.value, c.opts)),
    };
    let back = match c.value.ty().from_str(&xml) {
        Ok(b) => b,
        Err(e) => return Verdict::fail(format!("deserialization of the serializer's output failed: {} | xml {:?} | value {:?}", e, xml, c.value)),
    };
    if back != c.value {
        return Verdict::fail(format!("round trip changed the value | xml {:?} | original {:?} | read back {:?}", xml, c.value, back));
    }
    let mut v = Verdict::pass(has_special_payload(&c.value) || xml.matches('<').count() > 4);
    v.classes.push(c.value.ty().name());
    // the convenience entry points (their own default options): same round trip
    if c.opts.indent.is_none() {
        let entry = (xml.len() % 3) as u8;
        let what = ["to_string[_with_root]", "to_writer[_with_root]", "to_utf8_io_writer"][if entry == 2 && c.opts.root.is_some() { 0 } else { entry as usize }];
        let xml2 = match c.value.serialize_entry(entry, c.opts.root.as_deref()) {
            Ok(x) => x,
            Err(e) => return Verdict::fail(format!("{} failed: {} | value {:?}", what, e, c.value)),
        };
        match c.value.ty().from_str(&xml2) {
            Ok(b) if b == c.value => {}
            Ok(b) => return Verdict::fail(format!("round trip through {} changed the value | xml {:?} | original {:?} | read back {:?}", what, xml2, c.value, b)),
            Err(e) => return Verdict::fail(format!("deserialization of the output of {} failed: {} | xml {:?} | value {:?}", what, e, xml2, c.value)),
        }
        v.classes.push(what);
    }
    if c.opts.indent.is_some() {
        v.classes.push("indented");
    }
    if c.opts.expand_empty {
        v.classes.push("expand-empty");
    }
    if c.opts.root.is_some() {
        v.classes.push("root-renamed");
    }
    v
}

fn run(ctx: &Ctx) {
    ctx.run_regress::<Case, _>(check);
    let strat = || Box::new((any_val(), opts_strategy()).prop_map(|(value, opts)| Case { value, opts }));
    ctx.run_proptest_with("values-x-options", ctx.tier.pick(1_500_000, 12_000_000), strat, check);
    // every type x all 24 fixed option combinations on a smaller sample
    let per_type = ctx.tier.pick(1000usize, 10000);
    let mut cases: Vec<(Val, usize)> = vec![];
    for (k, t) in ALL_TYPES.iter().enumerate() {
        for (j, v) in crate::engine::sample_strategy(&val_of(*t), ctx.seed ^ (0x0600 + k as u64), per_type).into_iter().enumerate() {
            cases.push((v, j));
        }
    }
    ctx.run_indexed_mode(
        "each-type-x-all-option-combinations",
        cases.len() as u64 * 24,
        false,
        |i| {
            let (v, _) = &cases[(i / 24) as usize];
            let o = i % 24;
            let opts = SerOpts { level: (o % 3) as u8, indent: if (o / 3) % 2 == 1 { Some(([' ', '\t'][(o / 12) as usize % 2], (o % 5) as u8)) } else { None }, expand_empty: (o / 6) % 2 == 1, root: if o / 12 == 1 { Some("renamed".into()) } else { None } };
            Some(Case { value: v.clone(), opts })
        },
        check,
    );
}

fn replay(_stage: &str, case: &Value) -> Result<Verdict, String> {
    let c: Case = serde_json::from_value(case.clone()).map_err(|e| e.to_string())?;
    Ok(check(&c))
}
