//! C15 — deserialized values do not depend on lexical presentation.

use super::PropInfo;
use crate::engine::{sample_strategy, scale, Ctx, Verdict};
use crate::refxml::{self, Lexed, Tok};
use crate::types::*;
use proptest::prelude::*;
use serde::{Deserialize, Serialize};
use serde_json::Value;

#[derive(Clone, Debug, Serialize, Deserialize, PartialEq)]
pub struct Rw {
    /// 0 comment/PI between tokens, 1 comment/PI inside text, 2 whitespace between children of
    /// element-only content, 3 text -> CDATA (whole or part), 4 char -> character reference,
    /// 5 <x/> <-> <x></x>, 6 attribute order, 7 attribute quotes, 8 attribute spacing,
    /// 9 prolog / trailing comment, 10 unknown attribute, 11 unknown child element
    pub kind: u8,
    pub site: u16,
    pub arg: u16,
}

#[derive(Clone, Debug, Serialize, Deserialize, PartialEq)]
pub struct Case {
    pub value: Val,
    pub level: u8,
    pub expand_empty: bool,
    pub rewrites: Vec<Rw>,
}

pub fn info() -> PropInfo {
    PropInfo {
        id: "C15",
        run,
        replay,
        rule: "cases = (family value, quote level, expand-empty, list of rewrites). The value is serialized (no indentation, so every text token is payload), the document is rewritten by the composition of the listed rewrites, each applied at a chosen applicable site: comment/PI between any two tokens or inside text (never inside a reference), whitespace between children of element-only struct content, text replaced wholly/partly by CDATA or (non-blank characters) by decimal/hex character references, <x/> <-> <x></x>, attribute order / quote kind (re-escaping the quote) / spacing, XML declaration + trailing comment, unknown attributes on struct elements and unknown child elements at the start or end of element-only struct content (per-type metadata says where). Oracle: from_str::<T>(rewritten) == from_str::<T>(original), both Ok. Small documents: every rewrite kind at EVERY applicable site; otherwise 1-6 random rewrites. A further stage uses hand-templated documents with prefix:nil attributes on optional fields (the serializer never writes xsi:nil) and adds unknown children that declare/rebind/unbind namespace prefixes for their own subtree. Non-trivial = at least one rewrite was applicable and changed the document.",
        assumptions: &[
            "blank characters are never turned into references and references are never split (both change the information under the documented list/trim rules)",
            "whitespace-only text tokens are never turned into CDATA/references (inserted whitespace is insignificant only as plain text)",
            "unknown attributes/children are added only where the target type is a struct that ignores unknown fields (not on maps, not next to $value/$text content); unknown names are fresh",
        ],
        level: "exploration",
        variants: &["full", "min"],
    }
}

/// element names (or "" for the root element) that are structs ignoring unknown fields
fn struct_names(ty: Ty) -> &'static [&'static str] {
    match ty {
        Ty::Attrs | Ty::Elems | Ty::TextOnly | Ty::TextEnum | Ty::TextNum | Ty::TextBool | Ty::XsLists | Ty::ValueString | Ty::TagList | Ty::MapHolder | Ty::Nums => &[""],
        Ty::ListElems => &["", "item"],
        Ty::ChoiceHolder | Ty::MixedList => &["", "Struct", "Nested"],
        Ty::Nested => &["", "inner", "opt", "list"],
        Ty::Misc => &["", "nt"],
        Ty::TopEnum => &["C", "N"],
        Ty::Tree => &["", "child"],
        Ty::Rows => &["", "row", "cell", "opt", "last"],
        Ty::MixedTuples => &["", "S"],
    }
}

/// element names whose content is element-only struct content (unknown children and
/// whitespace between children are insignificant)
fn elemonly_names(ty: Ty) -> &'static [&'static str] {
    match ty {
        Ty::Attrs | Ty::Elems | Ty::MapHolder | Ty::Nums => &[""],
        Ty::TextOnly | Ty::TextEnum | Ty::TextNum | Ty::TextBool | Ty::XsLists | Ty::ValueString | Ty::TagList => &[],
        Ty::ListElems => &["", "item"],
        Ty::ChoiceHolder | Ty::MixedList => &["Struct", "Nested"],
        Ty::Nested => &["", "inner", "opt", "list"],
        Ty::Misc => &["", "nt"],
        Ty::TopEnum => &["C", "N"],
        Ty::Tree => &["", "child"],
        Ty::Rows => &["", "row", "cell", "opt", "last"],
        Ty::MixedTuples => &["S"],
    }
}

fn is_root_struct(ty: Ty) -> bool {
    ty != Ty::TopEnum
}

#[derive(Clone, Debug)]
struct Elem {
    /// token index of the start/empty tag, and of the end tag (same for empty)
    open: usize,
    close: usize,
    name: String,
    depth: usize,
}

fn elements(toks: &[Lexed]) -> Vec<Elem> {
    let mut out: Vec<Elem> = vec![];
    let mut stack: Vec<usize> = vec![];
    for (i, l) in toks.iter().enumerate() {
        match &l.tok {
            Tok::Start(c, n) => {
                out.push(Elem { open: i, close: i, name: String::from_utf8_lossy(&c[..*n]).into_owned(), depth: stack.len() });
                stack.push(out.len() - 1);
            }
            Tok::Empty(c, n) => out.push(Elem { open: i, close: i, name: String::from_utf8_lossy(&c[..*n]).into_owned(), depth: stack.len() }),
            Tok::End(_) => {
                if let Some(e) = stack.pop() {
                    out[e].close = i;
                }
            }
            _ => {}
        }
    }
    out
}

fn named(e: &Elem, names: &[&str], root_ok: bool) -> bool {
    (e.depth == 0 && root_ok && names.contains(&"")) || names.contains(&e.name.as_str())
}

/// parse `name k="v" ...` into (name, [(key, raw value, quote)])
fn parse_tag(content: &str) -> Option<(String, Vec<(String, String, char)>)> {
    let b: Vec<char> = content.chars().collect();
    let mut i = 0;
    while i < b.len() && !b[i].is_whitespace() {
        i += 1;
    }
    let name: String = b[..i].iter().collect();
    let mut attrs = vec![];
    loop {
        while i < b.len() && b[i].is_whitespace() {
            i += 1;
        }
        if i >= b.len() {
            break;
        }
        let ks = i;
        while i < b.len() && b[i] != '=' && !b[i].is_whitespace() {
            i += 1;
        }
        let key: String = b[ks..i].iter().collect();
        while i < b.len() && b[i].is_whitespace() {
            i += 1;
        }
        if i >= b.len() || b[i] != '=' {
            return None;
        }
        i += 1;
        while i < b.len() && b[i].is_whitespace() {
            i += 1;
        }
        if i >= b.len() || (b[i] != '"' && b[i] != '\'') {
            return None;
        }
        let q = b[i];
        i += 1;
        let vs = i;
        while i < b.len() && b[i] != q {
            i += 1;
        }
        if i >= b.len() {
            return None;
        }
        attrs.push((key, b[vs..i].iter().collect(), q));
        i += 1;
    }
    Some((name, attrs))
}

fn render_tag(name: &str, attrs: &[(String, String, char)], sp: &[&str]) -> String {
    let mut s = name.to_string();
    for (k, (key, val, q)) in attrs.iter().enumerate() {
        s.push_str(sp[k % sp.len()]);
        s.push_str(key);
        s.push_str(sp[(k + 1) % sp.len()].trim_start_matches(' ').trim_end_matches(|_| false));
        s.push('=');
        s.push_str(if k % 2 == 0 { "" } else { " " });
        s.push(*q);
        s.push_str(val);
        s.push(*q);
    }
    s
}

/// char indices of a text token at which something may be inserted / a char replaced:
/// positions outside `&...;` references
fn free_positions(text: &str) -> Vec<usize> {
    let mut out = vec![];
    let mut in_ref = false;
    for (i, c) in text.char_indices() {
        if c == '&' {
            in_ref = true;
        }
        if !in_ref {
            out.push(i);
        }
        if c == ';' && in_ref {
            in_ref = false;
        }
    }
    out
}

const FILLERS: &[&str] = &["<!--c-->", "<!-- </a> -->", "<?pi d?>", "<!---->", "<?pi?>", "<!-- <![CDATA[ ]]> -->"];
const BLANKS: &[&str] = &[" ", "\n", "\t", "\n  ", " \r\n "];

/// apply one rewrite; returns None when it is not applicable to this document
pub fn apply(ty: Ty, doc: &str, rw: &Rw) -> Option<String> {
    let bytes = doc.as_bytes();
    let toks = refxml::lex(bytes);
    if toks.iter().any(|l| matches!(l.tok, Tok::ErrSyntax(_))) {
        return None;
    }
    let els = elements(&toks);
    let filler = FILLERS[rw.arg as usize % FILLERS.len()];
    let tok_str = |l: &Lexed| std::str::from_utf8(&bytes[l.start..l.end]).ok();
    let splice = |start: usize, end: usize, with: &str| -> String { format!("{}{}{}", &doc[..start], with, &doc[end..]) };
    match rw.kind {
        0 => {
            // between any two tokens (token boundaries incl. start and end of the document)
            let n = toks.len() + 1;
            let k = scale(rw.site, n);
            let at = if k == toks.len() { doc.len() } else { toks[k].start };
            Some(splice(at, at, filler))
        }
        1 => {
            let texts: Vec<&Lexed> = toks.iter().filter(|l| matches!(l.tok, Tok::Text(_))).collect();
            if texts.is_empty() {
                return None;
            }
            let l = texts[scale(rw.site, texts.len())];
            let t = tok_str(l)?;
            let free = free_positions(t);
            if free.is_empty() {
                return None;
            }
            let p = free[scale(rw.arg.wrapping_mul(2654435761u32 as u16), free.len())];
            Some(splice(l.start + p, l.start + p, filler))
        }
        2 => {
            // before any child (or before the end tag) of an element-only struct element
            let names = elemonly_names(ty);
            let mut sites = vec![];
            for e in &els {
                if e.open == e.close || !named(e, names, is_root_struct(ty)) {
                    continue;
                }
                // direct children boundaries: the position right after the start tag, before each
                // direct child element and before the end tag
                let mut depth = 0;
                for i in e.open + 1..=e.close {
                    let at_child_level = depth == 0;
                    match &toks[i].tok {
                        Tok::Start(..) => {
                            if at_child_level {
                                sites.push(toks[i].start);
                            }
                            depth += 1;
                        }
                        Tok::End(_) => {
                            if i == e.close {
                                sites.push(toks[i].start);
                            } else {
                                depth -= 1;
                            }
                        }
                        Tok::Empty(..) if at_child_level => sites.push(toks[i].start),
                        _ => {}
                    }
                }
            }
            if sites.is_empty() {
                return None;
            }
            let at = sites[scale(rw.site, sites.len())];
            Some(splice(at, at, BLANKS[rw.arg as usize % BLANKS.len()]))
        }
        3 | 4 => {
            let texts: Vec<&Lexed> = toks.iter().filter(|l| matches!(&l.tok, Tok::Text(t) if !t.iter().all(|b| refxml::ws(*b)))).collect();
            if texts.is_empty() {
                return None;
            }
            let l = texts[scale(rw.site, texts.len())];
            let t = tok_str(l)?;
            let free = free_positions(t);
            if free.is_empty() {
                return None;
            }
            if rw.kind == 3 {
                // a run of reference-free characters [a, b) becomes a CDATA section holding the
                // unescaped characters (the run has no references, and no `]]>`)
                let a_i = scale(rw.arg, free.len());
                let a = free[a_i];
                let mut b_i = a_i;
                let want = 1 + (rw.arg as usize / 7) % 6;
                while b_i + 1 < free.len() && b_i - a_i + 1 < want && free[b_i + 1] == free[b_i] + t[free[b_i]..].chars().next().unwrap().len_utf8() {
                    b_i += 1;
                }
                let b = free[b_i] + t[free[b_i]..].chars().next().unwrap().len_utf8();
                let run = &t[a..b];
                if run.contains("]]>") || run.contains('<') || run.contains('&') {
                    return None;
                }
                // the blanks at the ends of a text token may be subject to trimming as long as they
                // are plain text: the CDATA section stays inside the non-blank core of the token
                let core_start = t.len() - t.trim_start_matches(is_xml_ws).len();
                let core_end = t.trim_end_matches(is_xml_ws).len();
                if a < core_start || b > core_end {
                    return None;
                }
                // a raw '>' preceded by "]]" in the surrounding text is fine inside CDATA as long
                // as the run itself does not contain the terminator
                let whole = rw.arg % 5 == 0 && free.len() == t.chars().count() && !t.contains("]]>") && core_start == 0 && core_end == t.len();
                if whole {
                    Some(splice(l.start, l.end, &format!("<![CDATA[{}]]>", t)))
                } else {
                    Some(splice(l.start + a, l.start + b, &format!("<![CDATA[{}]]>", run)))
                }
            } else {
                // NUL has no character reference (`&#0;` is documented to be an error)
                let cands: Vec<usize> = free.iter().copied().filter(|p| { let ch = t[*p..].chars().next().unwrap(); !ch.is_whitespace() && ch != '\0' }).collect();
                if cands.is_empty() {
                    return None;
                }
                let p = cands[scale(rw.arg, cands.len())];
                let c = t[p..].chars().next().unwrap();
                let r = match rw.arg % 3 {
                    0 => format!("&#{};", c as u32),
                    1 => format!("&#x{:x};", c as u32),
                    _ => format!("&#x{:04X};", c as u32),
                };
                Some(splice(l.start + p, l.start + p + c.len_utf8(), &r))
            }
        }
        5 => {
            let mut sites = vec![];
            for e in &els {
                if e.open == e.close {
                    sites.push((e.open, e.close, true));
                } else if e.close == e.open + 1 {
                    sites.push((e.open, e.close, false));
                }
            }
            if sites.is_empty() {
                return None;
            }
            let (o, c, empty) = sites[scale(rw.site, sites.len())];
            if empty {
                let content = match &toks[o].tok {
                    Tok::Empty(c, _) => String::from_utf8_lossy(c).into_owned(),
                    _ => return None,
                };
                let name = content.split(|ch: char| ch.is_whitespace()).next().unwrap_or("").to_string();
                Some(splice(toks[o].start, toks[o].end, &format!("<{}></{}>", content, name)))
            } else {
                let content = match &toks[o].tok {
                    Tok::Start(c, _) => String::from_utf8_lossy(c).into_owned(),
                    _ => return None,
                };
                Some(splice(toks[o].start, toks[c].end, &format!("<{}/>", content)))
            }
        }
        6 | 7 | 8 | 10 => {
            let tags: Vec<&Elem> = if rw.kind == 10 { els.iter().filter(|e| named(e, struct_names(ty), is_root_struct(ty))).collect() } else { els.iter().collect() };
            if tags.is_empty() {
                return None;
            }
            let e = tags[scale(rw.site, tags.len())];
            let l = &toks[e.open];
            let (content, empty) = match &l.tok {
                Tok::Start(c, _) => (String::from_utf8_lossy(c).into_owned(), false),
                Tok::Empty(c, _) => (String::from_utf8_lossy(c).into_owned(), true),
                _ => return None,
            };
            let (name, mut attrs) = parse_tag(&content)?;
            let mut sp: Vec<&str> = vec![" "];
            match rw.kind {
                6 => {
                    if attrs.len() < 2 {
                        return None;
                    }
                    let k = rw.arg as usize % attrs.len();
                    attrs.rotate_left(k.max(1));
                    if rw.arg % 2 == 1 {
                        attrs.reverse();
                    }
                }
                7 => {
                    if attrs.is_empty() {
                        return None;
                    }
                    let k = rw.arg as usize % attrs.len();
                    let (key, v, q) = &mut attrs[k];
                    if rw.arg % 3 == 2 {
                        // (namespace declarations are compared as written - documented: the value of
                        // `Namespace` is the non-normalized attribute value - so they are left alone)
                        if key.as_str() == "xmlns" || key.starts_with("xmlns:") {
                            return None;
                        }
                        // one character of the value (not a blank, not part of a reference, not NUL)
                        // becomes a character reference: the same information
                        let free = free_positions(v);
                        let cands: Vec<usize> = free.iter().copied().filter(|p| { let ch = v[*p..].chars().next().unwrap(); !ch.is_whitespace() && ch != '\0' }).collect();
                        if cands.is_empty() {
                            return None;
                        }
                        let p = cands[scale(rw.arg / 3, cands.len())];
                        let c = v[p..].chars().next().unwrap();
                        let r = if rw.arg % 2 == 0 { format!("&#{};", c as u32) } else { format!("&#x{:X};", c as u32) };
                        v.replace_range(p..p + c.len_utf8(), &r);
                    } else if *q == '"' {
                        *v = v.replace('\'', "&apos;");
                        *q = '\'';
                    } else {
                        *v = v.replace('"', "&quot;");
                        *q = '"';
                    }
                }
                8 => {
                    if attrs.is_empty() {
                        return None;
                    }
                    sp = vec!["  ", "\n", " \t ", " "];
                }
                _ => {
                    let fresh = format!("zz{}", rw.arg);
                    if attrs.iter().any(|(k, _, _)| *k == fresh) {
                        return None;
                    }
                    let at = rw.arg as usize % (attrs.len() + 1);
                    attrs.insert(at, (fresh, "u&amp;v".into(), if rw.arg % 2 == 0 { '"' } else { '\'' }));
                }
            }
            let mut tag = render_tag(&name, &attrs, &sp);
            if rw.kind == 8 && rw.arg % 2 == 0 {
                tag.push_str(" ");
            }
            Some(splice(l.start, l.end, &format!("<{}{}>", tag, if empty { "/" } else { "" })))
        }
        9 => {
            let has_decl = toks.iter().any(|l| matches!(l.tok, Tok::Decl(_)));
            let mut s = doc.to_string();
            if !has_decl && rw.arg % 3 != 2 {
                s = format!("<?xml version=\"1.0\" encoding=\"UTF-8\"?>{}{}", if rw.arg % 2 == 0 { "\n" } else { "" }, s);
            }
            if rw.arg % 3 != 0 || has_decl {
                s.push_str("\n<!-- end -->\n");
            }
            // a document type declaration (without entity definitions) is part of the prolog too
            if rw.arg % 4 == 3 && !toks.iter().any(|l| matches!(l.tok, Tok::DocType(_))) && !has_decl {
                let at = if s.starts_with("<?xml") { s.find("?>").map(|p| p + 2).unwrap_or(0) } else { 0 };
                s.insert_str(at, "\n<!DOCTYPE r [<!ELEMENT r ANY>]>\n");
            }
            Some(s)
        }
        11 => {
            let names = elemonly_names(ty);
            let hosts: Vec<&Elem> = els.iter().filter(|e| named(e, names, is_root_struct(ty))).collect();
            if hosts.is_empty() {
                return None;
            }
            let e = hosts[scale(rw.site, hosts.len())];
            let unknown = match rw.arg % 3 {
                0 => format!("<zz{}/>", rw.arg),
                1 => format!("<zz{} a=\"1\">t<q/>u</zz{}>", rw.arg, rw.arg),
                _ => format!("<zz{}><zz{}>x</zz{}></zz{}>", rw.arg, rw.arg, rw.arg, rw.arg),
            };
            if e.open == e.close {
                // <x .../> -> <x ...>unknown</x>
                let content = match &toks[e.open].tok {
                    Tok::Empty(c, _) => String::from_utf8_lossy(c).into_owned(),
                    _ => return None,
                };
                let name = content.split(|ch: char| ch.is_whitespace()).next().unwrap_or("").to_string();
                Some(splice(toks[e.open].start, toks[e.open].end, &format!("<{}>{}</{}>", content, unknown, name)))
            } else if rw.arg % 2 == 0 {
                Some(splice(toks[e.open].end, toks[e.open].end, &unknown))
            } else {
                Some(splice(toks[e.close].start, toks[e.close].start, &unknown))
            }
        }
        _ => None,
    }
}

pub fn check(c: &Case) -> Verdict {
    let ty = c.value.ty();
    let opts = SerOpts { level: c.level % 3, indent: None, expand_empty: c.expand_empty, root: None };
    let original = match c.value.serialize_with(&opts) {
        Ok(x) => x,
        Err(_) => return Verdict::excluded("value-does-not-serialize"),
    };
    let base = match ty.from_str(&original) {
        Ok(v) => v,
        Err(_) => return Verdict::excluded("original-does-not-deserialize"),
    };
    let mut doc = original.clone();
    let mut applied: Vec<&'static str> = vec![];
    const KIND: [&str; 12] = ["comment-between-tokens", "comment-inside-text", "whitespace-between-children", "text-to-cdata", "char-to-reference", "empty-vs-start-end", "attribute-order", "attribute-quotes", "attribute-spacing", "prolog-and-trailer", "unknown-attribute", "unknown-child"];
    for rw in &c.rewrites {
        if let Some(d) = apply(ty, &doc, rw) {
            if d != doc {
                applied.push(KIND[rw.kind as usize % 12]);
                doc = d;
            }
        }
    }
    if applied.is_empty() {
        return Verdict::pass(false).class("no-applicable-rewrite");
    }
    let mut v = Verdict::pass(true);
    v.classes = applied.clone();
    v.classes.sort();
    v.classes.dedup();
    // "kind xN" instead of N repetitions
    let applied: Vec<String> = v.classes.iter().map(|k| format!("{} x{}", k, applied.iter().filter(|a| *a == k).count())).collect();
    match ty.from_str(&doc) {
        Ok(got) if got == base => v,
        Ok(got) => Verdict::fail(format!("rewrites {:?} changed the value: original {:?} -> {:?}; rewritten {:?} -> {:?}", applied, original, base, doc, got)),
        Err(e) => Verdict::fail(format!("rewrites {:?} made deserialization fail ({}): original {:?}; rewritten {:?}", applied, e, original, doc)),
    }
}

/// Documents that use `xsi:nil` (the serializer never writes it, so the family documents do not
/// contain it): optional fields carrying prefix:nil attributes under a root that declares the
/// prefixes; the rewrite adds unknown child elements — which may declare, rebind or unbind
/// namespace prefixes for THEIR OWN subtree — at the start and/or end of the root's element-only
/// content. Targets are Option-bearing structs that ignore unknown fields.
#[derive(Deserialize, Debug)]
#[allow(dead_code)]
struct NilLeaf {
    #[serde(rename = "@k", default)]
    k: Option<String>,
    #[serde(rename = "$text", default)]
    t: Option<String>,
    #[serde(default)]
    v: Option<String>,
}
#[derive(Deserialize, Debug)]
#[allow(dead_code)]
struct NilHolder {
    a: Option<String>,
    b: Option<String>,
    c: Option<NilLeaf>,
    d: Option<NilLeaf>,
}

fn nil_de(target: u8, xml: &str, via_reader: bool) -> Result<String, String> {
    match (target % 2, via_reader) {
        (0, false) => quick_xml::de::from_str::<NilHolder>(xml).map(|v| format!("{:?}", v)).map_err(|e| e.to_string()),
        (0, true) => quick_xml::de::from_reader::<_, NilHolder>(std::io::BufReader::with_capacity(5, xml.as_bytes())).map(|v| format!("{:?}", v)).map_err(|e| e.to_string()),
        (_, false) => quick_xml::de::from_str::<super::c07::NestedOpts>(xml).map(|v| format!("{:?}", v)).map_err(|e| e.to_string()),
        (_, true) => quick_xml::de::from_reader::<_, super::c07::NestedOpts>(std::io::BufReader::with_capacity(5, xml.as_bytes())).map(|v| format!("{:?}", v)).map_err(|e| e.to_string()),
    }
}

#[derive(Clone, Debug, Serialize, Deserialize, PartialEq)]
pub struct NilCase {
    /// 0 = a struct of four optional fields, 1 = c07's NestedOpts
    pub target: u8,
    pub via_reader: bool,
    /// optional fields: (name, nil attribute, content) selectors
    pub fields: Vec<(u16, u16, u16)>,
    pub rootsel: u16,
    /// unknown children: (at end?, declaration, inner content) selectors
    pub unknown: Vec<(bool, u16, u16)>,
    /// attribute-level rewrites applied afterwards: (kind, site, arg); kind 6 order, 7 quote kind,
    /// 8 spacing, 10 unknown attribute (possibly in the XSI namespace) on a struct element
    #[serde(default)]
    pub attr_rws: Vec<(u8, u16, u16)>,
}

/// insert an unknown attribute into the start tag of the root or of a `c`/`d` element (structs that
/// ignore unknown fields in both targets' documents... for target 1 only the root is used)
fn nil_unknown_attr(doc: &str, target: u8, site: u16, arg: u16) -> Option<String> {
    let toks = refxml::lex(doc.as_bytes());
    let root_content = match &toks.first()?.tok {
        Tok::Start(c, _) => String::from_utf8_lossy(c).into_owned(),
        _ => return None,
    };
    let mut names: Vec<&str> = vec!["zz", "y-1"];
    if root_content.contains("xmlns:xsi=") {
        names.extend(["xsi:type", "xsi:schemaLocation", "xsi:zz"]);
    }
    if root_content.contains("xmlns:n=") {
        names.extend(["n:type", "n:zz"]);
    }
    let sites: Vec<usize> = (0..toks.len())
        .filter(|k| match &toks[*k].tok {
            Tok::Start(c, n) | Tok::Empty(c, n) => *k == 0 || (target % 2 == 0 && (&c[..*n] == b"c" || &c[..*n] == b"d")),
            _ => false,
        })
        .collect();
    let k = sites[scale(site, sites.len())];
    let l = &toks[k];
    let (content, empty) = match &l.tok {
        Tok::Start(c, _) => (String::from_utf8_lossy(c).into_owned(), false),
        Tok::Empty(c, _) => (String::from_utf8_lossy(c).into_owned(), true),
        _ => return None,
    };
    let (name, mut attrs) = parse_tag(&content)?;
    let fresh = names[scale(arg, names.len())].to_string();
    if attrs.iter().any(|(k, _, _)| *k == fresh) {
        return None;
    }
    // a prefix that the element itself rebinds would change the meaning of the new attribute only;
    // it is an unknown attribute either way
    let at = if arg % 2 == 0 { 0 } else { attrs.len() };
    attrs.insert(at, (fresh, "T".into(), if arg % 4 < 2 { '"' } else { '\'' }));
    let tag = render_tag(&name, &attrs, &[" "]);
    Some(format!("{}<{}{}>{}", &doc[..l.start], tag, if empty { "/" } else { "" }, &doc[l.end..]))
}

pub fn check_nil(c: &NilCase) -> Verdict {
    let items: Vec<(u8, u16, u16, u16)> = c.fields.iter().map(|(a, b, d)| (1u8, *a, *b, *d)).collect();
    let base = super::c14::nil_template(&items, c.rootsel);
    let mut front: Vec<(u8, u16, u16, u16)> = vec![];
    let mut back: Vec<(u8, u16, u16, u16)> = vec![];
    for (at_end, decl, inner) in &c.unknown {
        if *at_end {
            back.push((0, *decl, *inner, 0));
        } else {
            front.push((0, *decl, *inner, 0));
        }
    }
    let mut all = front;
    all.extend(items.iter().cloned());
    all.extend(back);
    let mut rewritten = super::c14::nil_template(&all, c.rootsel);
    let mut attr_rewrites = 0;
    for (kind, site, arg) in &c.attr_rws {
        let r = match kind {
            6 | 7 | 8 => apply(Ty::Attrs, &rewritten, &Rw { kind: *kind, site: *site, arg: *arg }),
            _ => nil_unknown_attr(&rewritten, c.target, *site, *arg),
        };
        if let Some(d) = r {
            rewritten = d;
            attr_rewrites += 1;
        }
    }
    let a = nil_de(c.target, &base, c.via_reader);
    let b = nil_de(c.target, &rewritten, c.via_reader);
    match (&a, &b) {
        (Err(_), _) => Verdict::pass(false).class("nil-base-document-is-an-error"),
        (Ok(x), Ok(y)) if x == y => Verdict::pass(rewritten != base).class("nil-documents-unknown-child").class_if(attr_rewrites > 0, "nil-documents-attribute-rewrites"),
        _ => Verdict::fail(format!("unknown child elements (with namespace declarations of their own) and/or attribute rewrites (order, quotes, spacing, unknown attributes) changed the value for target {}: original {:?} -> {:?}; rewritten {:?} -> {:?}", c.target, base, a, rewritten, b)),
    }
}

/// Generated target types (dynde scripts): the rewrites that do not depend on the target type —
/// comments/PIs between tokens and inside text, text <-> CDATA, character references,
/// `<x/>` <-> `<x></x>`, attribute quote kind and spacing, prolog/trailer — must not change
/// anything a visitor is shown.
#[derive(Clone, Debug, Serialize, Deserialize, PartialEq)]
pub struct DynRwCase {
    pub value: Val,
    pub level: u8,
    pub expand_empty: bool,
    pub choices: Vec<u8>,
    pub rewrites: Vec<Rw>,
    /// well-formed noise inserted into the ORIGINAL document (unknown subtrees, blank-led text,
    /// CDATA, comments: c14::NOISE) at token boundaries: (position, piece)
    #[serde(default)]
    pub noise: Vec<(u16, u16)>,
}

const TYPE_FREE_KINDS: [u8; 9] = [0, 1, 3, 4, 5, 6, 7, 8, 9];

/// the same with an arbitrary document as the original (coverage-guided campaigns provide it)
#[derive(Clone, Debug, Serialize, Deserialize, PartialEq)]
pub struct DynDocCase {
    pub doc: String,
    pub choices: Vec<u8>,
    pub rewrites: Vec<Rw>,
}

/// The rewriter speaks about XML documents: tags balanced and named by XML names, attributes
/// quoted, unique and named by XML names, comments free of `--`, a declaration only at the very
/// start, no document type declaration (entity definitions are outside its model), no byte-order
/// mark (a prolog could not be put in front of it). Anything else is outside its domain.
pub fn in_rewriter_domain(doc: &str) -> bool {
    use crate::xmlname::is_name;
    if doc.starts_with('\u{feff}') {
        return false;
    }
    let bytes = doc.as_bytes();
    let mut stack: Vec<String> = vec![];
    let tag_ok = |content: &[u8]| -> Option<String> {
        let content = std::str::from_utf8(content).ok()?;
        if content.ends_with('/') || content.chars().any(|c| c.is_whitespace() && !is_xml_ws(c)) {
            return None;
        }
        let (name, attrs) = parse_tag(content)?;
        if !is_name(&name) {
            return None;
        }
        for (i, (k, v, _)) in attrs.iter().enumerate() {
            if !is_name(k) || v.contains('<') || attrs[..i].iter().any(|(k2, _, _)| k2 == k) {
                return None;
            }
        }
        Some(name)
    };
    for (i, l) in refxml::lex(bytes).iter().enumerate() {
        match &l.tok {
            Tok::Start(c, _) => match tag_ok(c) {
                Some(n) => stack.push(n),
                None => return false,
            },
            Tok::Empty(c, _) => {
                if tag_ok(c).is_none() {
                    return false;
                }
            }
            Tok::End(c) => {
                let n = String::from_utf8_lossy(c);
                if stack.pop().as_deref() != Some(n.trim_end_matches(is_xml_ws)) {
                    return false;
                }
            }
            Tok::Comment(c) => {
                if c.windows(2).any(|w| w == b"--") || c.last() == Some(&b'-') {
                    return false;
                }
            }
            Tok::Decl(_) => {
                if i != 0 {
                    return false;
                }
            }
            Tok::PI(c, n) => {
                if !std::str::from_utf8(&c[..*n]).map_or(false, is_name) {
                    return false;
                }
            }
            Tok::Text(t) => {
                if t.windows(3).any(|w| w == b"]]>") {
                    return false;
                }
            }
            Tok::CData(_) => {}
            Tok::DocType(_) | Tok::ErrMissingDoctypeName | Tok::ErrSyntax(_) => return false,
        }
    }
    stack.is_empty()
}

pub fn check_dyn_doc(c: &DynDocCase) -> Verdict {
    if !in_rewriter_domain(&c.doc) {
        return Verdict::excluded("not-an-xml-document-in-the-rewriter's-domain");
    }
    check_dyn_on(c.doc.clone(), &c.choices, &c.rewrites)
}

pub fn check_dyn(c: &DynRwCase) -> Verdict {
    let opts = SerOpts { level: c.level % 3, indent: None, expand_empty: c.expand_empty, root: None };
    let original = match c.value.serialize_with(&opts) {
        Ok(x) => x,
        Err(_) => return Verdict::excluded("value-does-not-serialize"),
    };
    let mut original = original;
    for (at, what) in &c.noise {
        let toks = refxml::lex(original.as_bytes());
        if toks.len() < 2 {
            break;
        }
        let k = 1 + scale(*at, toks.len() - 1);
        let pos = toks.get(k).map_or(original.len(), |l| l.start);
        // only markup pieces: blank-led or blank-only text next to a payload text would give it
        // leading/trailing blanks, which the documented trimming treats differently in text and CDATA
        let pieces: Vec<&str> = super::c14::NOISE.iter().copied().filter(|p| p.starts_with('<')).collect();
        if original.is_char_boundary(pos) {
            original.insert_str(pos, pieces[scale(*what, pieces.len())]);
        }
    }
    check_dyn_on(original, &c.choices, &c.rewrites)
}

fn check_dyn_on(original: String, choices: &[u8], rewrites: &[Rw]) -> Verdict {
    use crate::dynde;
    let ty = Ty::Attrs; // the type-independent rewrites do not look at it
    let script = dynde::script_from_doc(&original, choices);
    let budget = (original.len() * 8 + 256) * (script.depth() + 2) * 4;
    let run = |doc: &str| -> Result<Result<dynde::Tr, String>, String> {
        dynde::set_budget(budget);
        std::panic::catch_unwind(std::panic::AssertUnwindSafe(|| dynde::from_str(&script, doc))).map_err(|p| crate::engine::panic_message(&p))
    };
    let base = match run(&original) {
        Ok(Ok(t)) => t,
        Ok(Err(_)) => return Verdict::pass(false).class("scripted-original-is-an-error"),
        Err(_) => return Verdict::excluded("panic on the original (C07's business)"),
    };
    if dynde::overrun() {
        return Verdict::excluded("visitor-step-budget-exhausted (C07's business)");
    }
    let mut doc = original.clone();
    let mut applied: Vec<&'static str> = vec![];
    const KIND: [&str; 12] = ["comment-between-tokens", "comment-inside-text", "whitespace-between-children", "text-to-cdata", "char-to-reference", "empty-vs-start-end", "attribute-order", "attribute-quotes", "attribute-spacing", "prolog-and-trailer", "unknown-attribute", "unknown-child"];
    // attribute order: the attributes are compared as a set (sorted in both traces); a visitor that
    // stops reading early legitimately sees other attributes after a reordering
    let early = script.has_early_stop();
    let base = base.with_sorted_attributes();
    for rw in rewrites {
        if !TYPE_FREE_KINDS.contains(&rw.kind) || (rw.kind == 6 && early) {
            continue;
        }
        if let Some(d) = apply(ty, &doc, rw) {
            if d != doc {
                applied.push(KIND[rw.kind as usize % 12]);
                doc = d;
            }
        }
    }
    if applied.is_empty() {
        return Verdict::pass(false).class("no-applicable-rewrite");
    }
    let mut v = Verdict::pass(true).class("scripted-target");
    match run(&doc).map(|r| r.map(|t| t.with_sorted_attributes())) {
        Ok(Ok(got)) if got == base => v,
        Ok(Ok(got)) => Verdict::fail(format!("scripted target: rewrites {:?} changed what the visitors are shown: original {:?} -> {:?}; rewritten {:?} -> {:?} | script {:?}", applied, original, base, doc, got, script)),
        Ok(Err(e)) => Verdict::fail(format!("scripted target: rewrites {:?} made deserialization fail ({}): original {:?}; rewritten {:?} | script {:?}", applied, e, original, doc, script)),
        Err(p) => {
            if super::c07::is_f10_panic(&p, &script) {
                v.excluded = Some("known finding F10 of C07");
                return v;
            }
            Verdict::fail(format!("scripted target: panic {} on the rewritten document {:?} | script {:?}", p, doc, script))
        }
    }
}

/// A pair of documents carrying the same information, for one of C07's concrete target types:
/// the vehicle for regression witnesses with ordinary derived types (regress/C15/*.json).
#[derive(Clone, Debug, Serialize, Deserialize, PartialEq)]
pub struct PairCase {
    pub target: super::c07::Target,
    pub original: String,
    pub rewritten: String,
}

pub fn check_pair(c: &PairCase) -> Verdict {
    let a = super::c07::try_de_debug(&c.target, &c.original, None);
    let b = super::c07::try_de_debug(&c.target, &c.rewritten, None);
    match (&a, &b) {
        (Ok(x), Ok(y)) if x == y => Verdict::pass(true).class("document-pair"),
        _ => Verdict::fail(format!("target {:?}: {:?} -> {:?} but {:?} -> {:?}", c.target, c.original, a, c.rewritten, b)),
    }
}

pub fn rw_strategy() -> impl Strategy<Value = Rw> {
    (0u8..12, any::<u16>(), any::<u16>()).prop_map(|(kind, site, arg)| Rw { kind, site, arg })
}

fn run(ctx: &Ctx) {
    ctx.run_regress::<Case, _>(check);
    ctx.run_regress::<NilCase, _>(check_nil);
    ctx.run_regress::<DynRwCase, _>(check_dyn);
    ctx.run_regress::<PairCase, _>(check_pair);
    ctx.run_regress::<DynDocCase, _>(check_dyn_doc);
    let strat = || Box::new((any_val(), 0u8..3, any::<bool>(), prop::collection::vec(rw_strategy(), 1..7)).prop_map(|(value, level, expand_empty, rewrites)| Case { value, level, expand_empty, rewrites }));
    ctx.run_proptest_with("values-x-random-rewrites", ctx.tier.pick(1_500_000, 12_000_000), strat, check);
    let nil = || {
        Box::new(
            (
                (0u8..2, any::<bool>()),
                prop::collection::vec((any::<u16>(), any::<u16>(), any::<u16>()), 1..4),
                any::<u16>(),
                prop::collection::vec((any::<bool>(), any::<u16>(), any::<u16>()), 0..3),
                prop::collection::vec((prop::sample::select(vec![6u8, 6, 7, 8, 10, 10]), any::<u16>(), any::<u16>()), 0..4),
            )
                .prop_map(|((target, via_reader), fields, rootsel, unknown, attr_rws)| NilCase { target, via_reader, fields, rootsel, unknown, attr_rws }),
        )
    };
    let dynrw = || {
        Box::new((any_val(), 0u8..3, any::<bool>(), prop::collection::vec(any::<u8>(), 0..48), prop::collection::vec((prop::sample::select(TYPE_FREE_KINDS.to_vec()), any::<u16>(), any::<u16>()).prop_map(|(kind, site, arg)| Rw { kind, site, arg }), 1..5), prop::collection::vec((any::<u16>(), any::<u16>()), 0..4)).prop_map(|(value, level, expand_empty, choices, rewrites, noise)| DynRwCase { value, level, expand_empty, choices, rewrites, noise }))
    };
    ctx.run_proptest_with("scripted-targets-x-type-independent-rewrites", ctx.tier.pick(800_000, 6_000_000), dynrw, check_dyn);
    // the same on documents with xsi:nil attributes, namespace (re)declarations and unknown subtrees
    let dynnil = || {
        Box::new(
            (prop::collection::vec((0u8..2, any::<u16>(), any::<u16>(), any::<u16>()), 1..6), any::<u16>(), prop::collection::vec(any::<u8>(), 0..40), prop::collection::vec((prop::sample::select(TYPE_FREE_KINDS.to_vec()), any::<u16>(), any::<u16>()).prop_map(|(kind, site, arg)| Rw { kind, site, arg }), 1..5))
                .prop_map(|(items, rootsel, choices, rewrites)| DynDocCase { doc: super::c14::nil_template(&items, rootsel), choices, rewrites }),
        )
    };
    ctx.run_proptest_with("scripted-targets-x-nil-documents", ctx.tier.pick(300_000, 3_000_000), dynnil, check_dyn_doc);
    // the same rewrite kind applied MANY times (130 / 270 comments, blanks between children, unknown
    // children, unknown attributes ...): whatever the deserializer counts per skipped element,
    // per comment or per attribute passes 128 and 256
    let bulk = || {
        Box::new((any_val(), 0u8..3, prop::sample::select(vec![0u8, 2, 10, 11, 11, 11]), prop::sample::select(vec![130usize, 270]), any::<u16>()).prop_map(|(value, level, kind, n, salt)| {
            // `arg % 3` selects the shape of an unknown child (empty / text+element / nested same name):
            // one shape per case, so that one skipping path is taken n times
            let rewrites = (0..n).map(|k| Rw { kind, site: (k as u16).wrapping_mul(2503).wrapping_add(salt), arg: (k as u16).wrapping_mul(3).wrapping_add(salt % 3).wrapping_add((salt / 3 % 100) * 3) }).collect();
            Case { value, level, expand_empty: salt % 2 == 0, rewrites }
        }))
    };
    ctx.run_proptest_with("one-rewrite-kind-applied-130-or-270-times", ctx.tier.pick(6_000, 60_000), bulk, check);
    ctx.run_proptest_with("nil-documents-x-unknown-children", ctx.tier.pick(400_000, 4_000_000), nil, check_nil);
    // small documents: each rewrite kind at every applicable site
    let per_type = ctx.tier.pick(60usize, 1200);
    let mut vals: Vec<Val> = vec![];
    for (k, t) in ALL_TYPES.iter().enumerate() {
        for v in sample_strategy(&val_of(*t), ctx.seed ^ (0x1500 + k as u64), per_type * 3) {
            if v.serialize_with(&SerOpts::plain()).map(|d| d.len() <= 160).unwrap_or(false) {
                vals.push(v);
            }
            if vals.len() >= (k + 1) * per_type {
                break;
            }
        }
    }
    ctx.run_groups(
        "small-documents-x-every-site",
        vals.len() as u64,
        false,
        |i| {
            let v = &vals[i as usize];
            let mut out = vec![];
            for kind in 0..12u8 {
                // sites are chosen by scale(site, n) with n <= 64 for these documents
                for s in 0..48u32 {
                    let site = ((s * 65536 + 32768) / 48) as u16;
                    for arg in [0u16, 1, 2, 7] {
                        out.push(Case { value: v.clone(), level: (i % 3) as u8, expand_empty: i % 2 == 1, rewrites: vec![Rw { kind, site, arg: arg.wrapping_add(s as u16 * 13) }] });
                    }
                }
            }
            out
        },
        check,
    );
}

fn replay(stage: &str, case: &Value) -> Result<Verdict, String> {
    if case.get("doc").is_some() {
        let c: DynDocCase = serde_json::from_value(case.clone()).map_err(|e| e.to_string())?;
        return Ok(check_dyn_doc(&c));
    }
    if case.get("rewritten").is_some() {
        let c: PairCase = serde_json::from_value(case.clone()).map_err(|e| e.to_string())?;
        return Ok(check_pair(&c));
    }
    if case.get("choices").is_some() {
        let c: DynRwCase = serde_json::from_value(case.clone()).map_err(|e| e.to_string())?;
        return Ok(check_dyn(&c));
    }
    if stage == "nil-documents-x-unknown-children" || case.get("unknown").is_some() {
        let c: NilCase = serde_json::from_value(case.clone()).map_err(|e| e.to_string())?;
        return Ok(check_nil(&c));
    }
    let c: Case = serde_json::from_value(case.clone()).map_err(|e| e.to_string())?;
    Ok(check(&c))
}
