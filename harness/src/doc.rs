//! Grammar-based well-formed documents as a tree. Rendering returns the text and a flat list
//! of the expected events with byte spans — the oracle for C05 and C12.

use proptest::prelude::*;
use serde::{Deserialize, Serialize};

#[derive(Clone, Debug, Serialize, Deserialize, PartialEq)]
pub struct Attr {
    pub key: String,
    /// raw (already escaped) value, must not contain the quote
    pub value: String,
    pub single_quote: bool,
    /// blanks before `=`, after `=`, before the key (beyond the mandatory one)
    pub sp: (u8, u8, u8),
}

#[derive(Clone, Debug, Serialize, Deserialize, PartialEq)]
pub struct Elem {
    pub name: String,
    pub attrs: Vec<Attr>,
    pub children: Vec<Node>,
    /// `<n/>` instead of `<n></n>` when there are no children
    pub self_closing: bool,
    /// blanks before `>` of the end tag (index into WS) and of the start tag
    pub end_ws: u8,
    pub start_ws: u8,
}

#[derive(Clone, Debug, Serialize, Deserialize, PartialEq)]
pub enum Node {
    Elem(Elem),
    /// raw text without `<` (may contain references)
    Text(String),
    Comment(String),
    CData(String),
    PI(String),
}

#[derive(Clone, Debug, Serialize, Deserialize, PartialEq)]
pub struct Doc {
    pub decl: bool,
    pub doctype: Option<String>,
    pub prolog_ws: bool,
    pub root: Elem,
    pub epilog: Vec<Node>,
}

pub const WS: &[&str] = &["", "", " ", "\n", " \t "];

#[derive(Clone, Debug, PartialEq)]
pub enum FlatKind {
    Decl,
    DocType,
    Text,
    Comment,
    CData,
    PI,
    /// (element id, is self-closing form)
    Start(usize),
    Empty(usize),
    End(usize),
}

#[derive(Clone, Debug)]
pub struct Flat {
    pub kind: FlatKind,
    pub start: usize,
    pub end: usize,
    /// content as exposed by the reader
    pub content: Vec<u8>,
}

#[derive(Clone, Debug)]
pub struct ElemInfo {
    pub name: String,
    pub parent: Option<usize>,
    pub attrs: Vec<(String, String)>,
    /// index of the Start/Empty event in `flat`
    pub open_idx: usize,
    /// index of the End event in `flat` (== open_idx for the self-closing form)
    pub close_idx: usize,
    pub depth: usize,
}

#[derive(Clone, Debug, Default)]
pub struct Rendered {
    pub text: Vec<u8>,
    pub flat: Vec<Flat>,
    pub elems: Vec<ElemInfo>,
}

impl Rendered {
    fn push(&mut self, kind: FlatKind, open: &str, content: &str, close: &str) {
        let start = self.text.len();
        self.text.extend_from_slice(open.as_bytes());
        self.text.extend_from_slice(content.as_bytes());
        self.text.extend_from_slice(close.as_bytes());
        let end = self.text.len();
        // adjacent text runs merge into one event
        if kind == FlatKind::Text {
            if content.is_empty() {
                return;
            }
            if let Some(last) = self.flat.last_mut() {
                if last.kind == FlatKind::Text {
                    last.end = end;
                    last.content.extend_from_slice(content.as_bytes());
                    return;
                }
            }
        }
        self.flat.push(Flat { kind, start, end, content: content.as_bytes().to_vec() });
    }
}

fn tag_content(e: &Elem) -> String {
    let mut s = e.name.clone();
    for a in &e.attrs {
        s.push(' ');
        s.push_str(&" ".repeat(a.sp.2 as usize % 3));
        s.push_str(&a.key);
        s.push_str(WS[a.sp.0 as usize % WS.len()]);
        s.push('=');
        s.push_str(WS[a.sp.1 as usize % WS.len()]);
        let q = if a.single_quote { '\'' } else { '"' };
        s.push(q);
        s.push_str(&a.value);
        s.push(q);
    }
    s
}

fn render_elem(e: &Elem, parent: Option<usize>, depth: usize, out: &mut Rendered) {
    let id = out.elems.len();
    out.elems.push(ElemInfo { name: e.name.clone(), parent, attrs: e.attrs.iter().map(|a| (a.key.clone(), a.value.clone())).collect(), open_idx: 0, close_idx: 0, depth });
    let mut content = tag_content(e);
    if e.children.is_empty() && e.self_closing {
        // blanks before `/>` belong to the content exposed by the event
        content.push_str(WS[e.start_ws as usize % WS.len()]);
        out.elems[id].open_idx = out.flat.len();
        out.elems[id].close_idx = out.flat.len();
        out.push(FlatKind::Empty(id), "<", &content, "/>");
        return;
    }
    content.push_str(WS[e.start_ws as usize % WS.len()]);
    out.elems[id].open_idx = out.flat.len();
    out.push(FlatKind::Start(id), "<", &content, ">");
    for c in &e.children {
        render_node(c, Some(id), depth + 1, out);
    }
    out.elems[id].close_idx = out.flat.len();
    let mut endc = e.name.clone();
    endc.push_str(WS[e.end_ws as usize % WS.len()]);
    out.push(FlatKind::End(id), "</", &endc, ">");
}

fn render_node(n: &Node, parent: Option<usize>, depth: usize, out: &mut Rendered) {
    match n {
        Node::Elem(e) => render_elem(e, parent, depth, out),
        Node::Text(t) => out.push(FlatKind::Text, "", t, ""),
        Node::Comment(t) => out.push(FlatKind::Comment, "<!--", t, "-->"),
        Node::CData(t) => out.push(FlatKind::CData, "<![CDATA[", t, "]]>"),
        Node::PI(t) => out.push(FlatKind::PI, "<?", t, "?>"),
    }
}

pub fn render(d: &Doc) -> Rendered {
    let mut out = Rendered::default();
    if d.decl {
        out.push(FlatKind::Decl, "<?", "xml version=\"1.0\"", "?>");
    }
    if d.prolog_ws {
        out.push(FlatKind::Text, "", "\n", "");
    }
    if let Some(dt) = &d.doctype {
        // the reader strips the blanks after the keyword
        let start = out.text.len();
        out.text.extend_from_slice(b"<!DOCTYPE ");
        out.text.extend_from_slice(dt.as_bytes());
        out.text.push(b'>');
        let end = out.text.len();
        out.flat.push(Flat { kind: FlatKind::DocType, start, end, content: dt.as_bytes().to_vec() });
    }
    render_elem(&d.root, None, 0, &mut out);
    for n in &d.epilog {
        match n {
            Node::Elem(_) | Node::CData(_) => {}
            other => render_node(other, None, 0, &mut out),
        }
    }
    out
}

// ---------------------------------------------------------------------------------------------
// strategies

#[derive(Clone, Debug)]
pub struct DocParams {
    pub names: Vec<&'static str>,
    pub attr_keys: Vec<&'static str>,
    pub attr_values: Vec<&'static str>,
    /// namespace declarations: (key, value) pairs to draw from
    pub ns_decls: Vec<(&'static str, &'static str)>,
    pub max_depth: u32,
    pub max_children: usize,
    pub lookalikes: bool,
}

pub const XSI: &str = "http://www.w3.org/2001/XMLSchema-instance";
pub const XML_NS: &str = "http://www.w3.org/XML/1998/namespace";

impl DocParams {
    /// namespace-heavy pool (C05)
    pub fn namespaces() -> Self {
        DocParams {
            // the long prefixes have the same length and the same first eight bytes
            names: vec!["a", "b", "p:a", "q:a", "p:b", "q:b", "xml:a", "r:a", "i:a", "a", "p:a", "q:b", "namespace1:a", "namespace2:a", "soapenv11:b", "soapenv12:a"],
            attr_keys: vec!["k", "j", "p:k", "q:k", "xml:lang", "i:nil", "p:nil", "r:k", "nil", "k", "p:k", "i:nil", "namespace1:k", "namespace2:nil", "soapenv12:k"],
            attr_values: vec!["v", "", "true", "false", "1", "0", "x y"],
            ns_decls: vec![
                ("xmlns", "u1"),
                ("xmlns", "u2"),
                ("xmlns", ""),
                ("xmlns:p", "u1"),
                ("xmlns:p", "u2"),
                ("xmlns:p", ""),
                ("xmlns:q", "u1"),
                ("xmlns:q", "u3"),
                ("xmlns:q", ""),
                ("xmlns:i", XSI),
                ("xmlns:p", XSI),
                ("xmlns:i", "u1"),
                ("xmlns:xml", XML_NS),
                ("xmlns", "u1"),
                ("xmlns:p", "u2"),
                ("xmlns:q", ""),
                ("xmlns:namespace1", "u1"),
                ("xmlns:namespace2", "u2"),
                ("xmlns:namespace1", ""),
                ("xmlns:namespace2", XSI),
                ("xmlns:soapenv11", "u3"),
                ("xmlns:soapenv12", "u1"),
            ],
            max_depth: 5,
            max_children: 4,
            lookalikes: false,
        }
    }
    /// repeated names, look-alike end tags (C12)
    pub fn skipping() -> Self {
        DocParams {
            names: vec!["a", "a", "ab", "b", "a:b", "n"],
            attr_keys: vec!["k", "j", "x"],
            attr_values: vec!["v", "", "</a>", ">", "<a>", "a='b'", "/"],
            ns_decls: vec![],
            max_depth: 5,
            max_children: 4,
            lookalikes: true,
        }
    }
}

fn attr_strategy(p: &DocParams) -> impl Strategy<Value = Attr> {
    let keys = p.attr_keys.clone();
    let values = p.attr_values.clone();
    let decls = p.ns_decls.clone();
    let plain = (prop::sample::select(keys), prop::sample::select(values)).prop_map(|(k, v)| (k.to_string(), v.to_string()));
    let kv: BoxedStrategy<(String, String)> = if decls.is_empty() { plain.boxed() } else { prop_oneof![1 => plain, 1 => prop::sample::select(decls).prop_map(|(k, v)| (k.to_string(), v.to_string()))].boxed() };
    (kv, any::<bool>(), (0u8..5, 0u8..5, 0u8..3)).prop_map(|((key, value), sq, sp)| {
        // the value must not contain its own quote
        let single_quote = if value.contains('\'') { false } else if value.contains('"') { true } else { sq };
        Attr { key, value, single_quote, sp }
    })
}

fn dedup_attrs(attrs: Vec<Attr>) -> Vec<Attr> {
    let mut out: Vec<Attr> = vec![];
    for a in attrs {
        if !out.iter().any(|b| b.key == a.key) {
            out.push(a);
        }
    }
    out
}

fn misc_strategy(p: &DocParams) -> BoxedStrategy<Node> {
    let text = if p.lookalikes {
        prop::sample::select(vec!["t", " ", "\n  ", "x y", "&amp;", "&lt;/a&gt;", " lead", "trail ", "]]>", "-->", "?>", "\u{feff}y", "\u{feff}", "\u{e9}\u{feff}"])
    } else {
        prop::sample::select(vec!["t", " ", "\n  ", "x y", "&amp;", " lead", "trail ", "x", "y", "z", "\n"])
    };
    let comment = if p.lookalikes { prop::sample::select(vec!["c", "</a>", "<a>", " </a > ", "-", "- -", "]]>", "?>", ">", "<a/>", ""]) } else { prop::sample::select(vec!["c", "", " x ", ">", "-", "<", "&", "?>", "]]>", "y", "z"]) };
    let cdata = if p.lookalikes { prop::sample::select(vec!["d", "</a>", "<a>", "]]", "]", "]]]", "-->", "?>", ">", "</a", ""]) } else { prop::sample::select(vec!["d", "", "<", "&", "]]", "]", ">", "x", "y", "z", "]>"]) };
    let pi = if p.lookalikes { prop::sample::select(vec!["pi", "pi </a>", "pi ?", "pi >", "pi ? >", "p <a>", "xmlx", "pi -->", "pi ]]>"]) } else { prop::sample::select(vec!["pi", "pi d", "pi ?", "pi >", "p", "xmlx", "pi x", "pi y", "q"]) };
    prop_oneof![
        5 => text.prop_map(|s| Node::Text(s.to_string())),
        2 => comment.prop_map(|s| Node::Comment(s.to_string())),
        2 => cdata.prop_map(|s| Node::CData(s.to_string())),
        1 => pi.prop_map(|s| Node::PI(s.to_string())),
    ]
    .boxed()
}

pub fn elem_strategy(p: &DocParams) -> BoxedStrategy<Elem> {
    let names = p.names.clone();
    let p2 = p.clone();
    let leaf = (prop::sample::select(names.clone()), prop::collection::vec(attr_strategy(p), 0..4), any::<bool>(), 0u8..5, 0u8..5, prop::collection::vec(misc_strategy(p), 0..2)).prop_map(|(name, attrs, self_closing, end_ws, start_ws, children)| Elem {
        name: name.to_string(),
        attrs: dedup_attrs(attrs),
        children: if self_closing { vec![] } else { children },
        self_closing,
        end_ws,
        start_ws,
    });
    let maxc = p.max_children;
    leaf.prop_recursive(p.max_depth, 40, maxc as u32, move |inner| {
        let child = prop_oneof![3 => inner.prop_map(Node::Elem), 2 => misc_strategy(&p2)];
        (prop::sample::select(names.clone()), prop::collection::vec(attr_strategy(&p2), 0..4), 0u8..5, 0u8..5, prop::collection::vec(child, 0..=maxc)).prop_map(|(name, attrs, end_ws, start_ws, children)| Elem { name: name.to_string(), attrs: dedup_attrs(attrs), children, self_closing: false, end_ws, start_ws })
    })
    .boxed()
}

pub fn doc_strategy(p: &DocParams) -> BoxedStrategy<Doc> {
    let epi = prop::collection::vec(prop_oneof![Just(Node::Text("\n".into())), Just(Node::Comment(" end ".into())), Just(Node::PI("pi end".into()))], 0..3);
    (any::<bool>(), prop::option::of(prop::sample::select(vec!["r", "r [<!ELEMENT r (#PCDATA)>]", "r SYSTEM \"x\""])), any::<bool>(), elem_strategy(p), epi)
        .prop_map(|(decl, doctype, prolog_ws, root, epilog)| Doc { decl, doctype: doctype.map(|s| s.to_string()), prolog_ws, root, epilog })
        .boxed()
}
