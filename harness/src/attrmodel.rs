//! Reference model of attribute iteration, written from the `AttrError` / `Attr` documentation:
//! keys end at `=` or whitespace; values are the bytes between matching quotes; error positions
//! and recovery points as documented. `None` = ambiguous input class (a `=` where a key should
//! start — nothing documents what that means); only totality is checked there.

use quick_xml::events::attributes::AttrError;

#[derive(Debug, PartialEq, Clone)]
pub enum Item {
    Attr(Vec<u8>, Vec<u8>),
    Err(AttrError),
}

fn ws(b: u8) -> bool {
    matches!(b, b' ' | b'\t' | b'\r' | b'\n')
}

pub fn model(s: &[u8], start: usize, html: bool, checks: bool) -> Option<Vec<Item>> {
    let n = s.len();
    let mut out = vec![];
    let mut i = start.min(n);
    // (start, end) of keys that take part in duplicate detection
    let mut keys: Vec<(usize, usize)> = vec![];
    loop {
        while i < n && ws(s[i]) {
            i += 1;
        }
        if i >= n {
            break;
        }
        if s[i] == b'=' {
            return None;
        }
        let ks = i;
        while i < n && s[i] != b'=' && !ws(s[i]) {
            i += 1;
        }
        let ke = i;
        let mut j = i;
        while j < n && ws(s[j]) {
            j += 1;
        }
        if j >= n || s[j] != b'=' {
            // key without `=`
            if html {
                if checks {
                    if let Some(p) = keys.iter().find(|(a, b)| s[*a..*b] == s[ks..ke]) {
                        out.push(Item::Err(AttrError::Duplicated(ks, p.0)));
                        i = j;
                        if j >= n {
                            break;
                        }
                        continue;
                    }
                    keys.push((ks, ke));
                }
                out.push(Item::Attr(s[ks..ke].to_vec(), vec![]));
            } else {
                out.push(Item::Err(AttrError::ExpectedEq(j)));
            }
            i = j;
            if j >= n {
                break;
            }
            continue;
        }
        let eq = j;
        let dup = if checks { keys.iter().find(|(a, b)| s[*a..*b] == s[ks..ke]).map(|p| p.0) } else { None };
        if checks && dup.is_none() {
            keys.push((ks, ke));
        }
        let mut v = eq + 1;
        while v < n && ws(s[v]) {
            v += 1;
        }
        if let Some(prev) = dup {
            out.push(Item::Err(AttrError::Duplicated(ks, prev)));
            // documented recovery: after the complete value of the duplicate
            if v >= n {
                break;
            }
            if s[v] == b'"' || s[v] == b'\'' {
                let q = s[v];
                let mut e = v + 1;
                while e < n && s[e] != q {
                    e += 1;
                }
                if e >= n {
                    break;
                }
                i = e + 1;
            } else {
                let mut e = v;
                while e < n && !ws(s[e]) {
                    e += 1;
                }
                if e >= n {
                    break;
                }
                i = e;
            }
            continue;
        }
        if v >= n {
            out.push(Item::Err(AttrError::ExpectedValue(n)));
            break;
        }
        if s[v] == b'"' || s[v] == b'\'' {
            let q = s[v];
            let mut e = v + 1;
            while e < n && s[e] != q {
                e += 1;
            }
            if e >= n {
                out.push(Item::Err(AttrError::ExpectedQuote(n, q)));
                break;
            }
            out.push(Item::Attr(s[ks..ke].to_vec(), s[v + 1..e].to_vec()));
            i = e + 1;
        } else {
            let mut e = v;
            while e < n && !ws(s[e]) {
                e += 1;
            }
            if html {
                out.push(Item::Attr(s[ks..ke].to_vec(), s[v..e].to_vec()));
            } else {
                out.push(Item::Err(AttrError::UnquotedValue(v)));
            }
            if e >= n {
                break;
            }
            i = e;
        }
    }
    Some(out)
}
