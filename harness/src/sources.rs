//! Harness-owned byte sources: the chunking, the pending/wake schedule and injected faults are
//! data, never timing.

use std::collections::BTreeMap;
use std::future::Future;
use std::io::{self, BufRead, ErrorKind, Read};
use std::pin::Pin;
use std::sync::atomic::{AtomicUsize, Ordering};
use std::sync::Arc;
use std::task::{Context, Poll, RawWaker, RawWakerVTable, Waker};
use tokio::io::{AsyncBufRead, AsyncRead, ReadBuf};

pub const FAULT_MARK: &str = "qxv-injected-fault";

/// What to do at the k-th `fill_buf` call (0-based, failing calls count too).
#[derive(Clone, Debug, Default)]
pub struct FaultPlan {
    pub at: BTreeMap<usize, ErrorKind>,
}
impl FaultPlan {
    pub fn none() -> Self {
        FaultPlan::default()
    }
    pub fn single(call: usize, kind: ErrorKind, repeat: usize) -> Self {
        let mut at = BTreeMap::new();
        for i in 0..repeat {
            at.insert(call + i, kind);
        }
        FaultPlan { at }
    }
}

/// Piece boundaries: sorted, strictly increasing offsets in 1..len. `fill_buf` never returns
/// bytes across a boundary.
fn next_boundary(cuts: &[usize], pos: usize, len: usize) -> usize {
    // cuts are few; linear/binary search
    match cuts.binary_search(&(pos + 1)) {
        Ok(i) => cuts[i],
        Err(i) => {
            if i < cuts.len() {
                cuts[i]
            } else {
                len
            }
        }
    }
    .min(len)
}

#[derive(Clone)]
pub struct ChunkedBufRead<'a> {
    pub data: &'a [u8],
    pub cuts: Vec<usize>,
    pub pos: usize,
    pub calls: usize,
    pub plan: FaultPlan,
}
impl<'a> ChunkedBufRead<'a> {
    pub fn new(data: &'a [u8], cuts: Vec<usize>) -> Self {
        ChunkedBufRead { data, cuts, pos: 0, calls: 0, plan: FaultPlan::none() }
    }
    pub fn with_plan(data: &'a [u8], cuts: Vec<usize>, plan: FaultPlan) -> Self {
        ChunkedBufRead { data, cuts, pos: 0, calls: 0, plan }
    }
}
impl<'a> Read for ChunkedBufRead<'a> {
    fn read(&mut self, buf: &mut [u8]) -> io::Result<usize> {
        let avail = self.fill_buf()?;
        let n = avail.len().min(buf.len());
        buf[..n].copy_from_slice(&avail[..n]);
        self.consume(n);
        Ok(n)
    }
}
impl<'a> BufRead for ChunkedBufRead<'a> {
    fn fill_buf(&mut self) -> io::Result<&[u8]> {
        let call = self.calls;
        self.calls += 1;
        if let Some(kind) = self.plan.at.get(&call) {
            return Err(io::Error::new(*kind, FAULT_MARK));
        }
        let end = next_boundary(&self.cuts, self.pos, self.data.len());
        Ok(&self.data[self.pos.min(self.data.len())..end.max(self.pos).min(self.data.len())])
    }
    fn consume(&mut self, amt: usize) {
        self.pos += amt;
        assert!(self.pos <= self.data.len(), "consume beyond the data handed out");
    }
}

/// Async twin. `pend[i]` = number of `Poll::Pending` results returned (after waking) before the
/// i-th successful/failing `poll_fill_buf` completion.
#[derive(Clone)]
pub struct ChunkedAsync<'a> {
    pub data: &'a [u8],
    pub cuts: Vec<usize>,
    pub pos: usize,
    pub calls: usize,
    pub plan: FaultPlan,
    pub pend: Vec<u8>,
    pub pend_left: Option<u8>,
    pub pendings_returned: usize,
}
impl<'a> ChunkedAsync<'a> {
    pub fn new(data: &'a [u8], cuts: Vec<usize>, pend: Vec<u8>) -> Self {
        ChunkedAsync { data, cuts, pos: 0, calls: 0, plan: FaultPlan::none(), pend, pend_left: None, pendings_returned: 0 }
    }
    pub fn with_plan(data: &'a [u8], cuts: Vec<usize>, pend: Vec<u8>, plan: FaultPlan) -> Self {
        ChunkedAsync { data, cuts, pos: 0, calls: 0, plan, pend, pend_left: None, pendings_returned: 0 }
    }
}
impl<'a> AsyncRead for ChunkedAsync<'a> {
    fn poll_read(self: Pin<&mut Self>, cx: &mut Context<'_>, buf: &mut ReadBuf<'_>) -> Poll<io::Result<()>> {
        let this = self.get_mut();
        match Pin::new(&mut *this).poll_fill_buf(cx) {
            Poll::Pending => Poll::Pending,
            Poll::Ready(Err(e)) => Poll::Ready(Err(e)),
            Poll::Ready(Ok(avail)) => {
                let n = avail.len().min(buf.remaining());
                buf.put_slice(&avail[..n]);
                this.pos += n;
                Poll::Ready(Ok(()))
            }
        }
    }
}
impl<'a> AsyncBufRead for ChunkedAsync<'a> {
    fn poll_fill_buf(self: Pin<&mut Self>, cx: &mut Context<'_>) -> Poll<io::Result<&[u8]>> {
        let this = self.get_mut();
        let call = this.calls;
        let left = match this.pend_left {
            Some(l) => l,
            None => this.pend.get(call).copied().unwrap_or(0),
        };
        if left > 0 {
            this.pend_left = Some(left - 1);
            this.pendings_returned += 1;
            cx.waker().wake_by_ref();
            return Poll::Pending;
        }
        this.pend_left = None;
        this.calls += 1;
        if let Some(kind) = this.plan.at.get(&call) {
            return Poll::Ready(Err(io::Error::new(*kind, FAULT_MARK)));
        }
        let end = next_boundary(&this.cuts, this.pos, this.data.len());
        let len = this.data.len();
        Poll::Ready(Ok(&this.data[this.pos.min(len)..end.max(this.pos).min(len)]))
    }
    fn consume(self: Pin<&mut Self>, amt: usize) {
        let this = self.get_mut();
        this.pos += amt;
        assert!(this.pos <= this.data.len(), "consume beyond the data handed out");
    }
}

// ---------------------------------------------------------------------------------------------
// a minimal executor with a counting waker

static VTABLE: RawWakerVTable = RawWakerVTable::new(
    |p| {
        let a = unsafe { Arc::from_raw(p as *const AtomicUsize) };
        let b = a.clone();
        std::mem::forget(a);
        RawWaker::new(Arc::into_raw(b) as *const (), &VTABLE)
    },
    |p| {
        let a = unsafe { Arc::from_raw(p as *const AtomicUsize) };
        a.fetch_add(1, Ordering::SeqCst);
    },
    |p| {
        let a = unsafe { Arc::from_raw(p as *const AtomicUsize) };
        a.fetch_add(1, Ordering::SeqCst);
        std::mem::forget(a);
    },
    |p| {
        drop(unsafe { Arc::from_raw(p as *const AtomicUsize) });
    },
);

/// Polls the future to completion. A `Pending` that was not preceded by a wake-up is a
/// harness error (our sources always wake), reported by panic with a recognisable message.
pub fn block_on<F: Future>(fut: F) -> F::Output {
    let wakes = Arc::new(AtomicUsize::new(0));
    let raw = RawWaker::new(Arc::into_raw(wakes.clone()) as *const (), &VTABLE);
    let waker = unsafe { Waker::from_raw(raw) };
    let mut cx = Context::from_waker(&waker);
    let mut fut = Box::pin(fut);
    let mut polls: u64 = 0;
    loop {
        let before = wakes.load(Ordering::SeqCst);
        match fut.as_mut().poll(&mut cx) {
            Poll::Ready(v) => return v,
            Poll::Pending => {
                polls += 1;
                if wakes.load(Ordering::SeqCst) == before {
                    panic!("qxv-executor: Pending without wake (lost wake-up)");
                }
                if polls > 100_000_000 {
                    panic!("qxv-executor: future does not complete");
                }
            }
        }
    }
}

/// All cut sets of a string of length n as bit masks: bit i set = cut after byte i (offset i+1).
pub fn cuts_from_mask(mask: u64, n: usize) -> Vec<usize> {
    (0..n.saturating_sub(1)).filter(|i| mask >> i & 1 == 1).map(|i| i + 1).collect()
}

pub fn cuts_fixed(size: usize, n: usize) -> Vec<usize> {
    if size == 0 {
        return vec![];
    }
    (1..n).filter(|i| i % size == 0).collect()
}

// ---------------------------------------------------------------------------------------------
// async sink that accepts at most `max` bytes per write and returns Pending by a schedule

pub struct PartialSink {
    pub out: Vec<u8>,
    pub max: usize,
    /// Pending (after waking) before write k iff bit (k % 64) of the mask is set
    pub pend_mask: u64,
    pub calls: usize,
    /// reports `is_write_vectored()` and accepts partial vectored writes (at most `max` bytes in
    /// total, the cut may fall inside any of the slices)
    pub vectored: bool,
    pending_given: bool,
}
impl PartialSink {
    /// `max` = at most that many bytes per write; bit 7 set = the sink supports vectored writes
    pub fn new(max: usize, pend_mask: u64) -> Self {
        PartialSink { out: vec![], max: (max & 0x7f).max(1), pend_mask, calls: 0, vectored: max & 0x80 != 0, pending_given: false }
    }
}
impl tokio::io::AsyncWrite for PartialSink {
    fn poll_write(self: Pin<&mut Self>, cx: &mut Context<'_>, buf: &[u8]) -> Poll<io::Result<usize>> {
        let this = self.get_mut();
        if this.pend_mask >> (this.calls % 64) & 1 == 1 && !this.pending_given {
            this.pending_given = true;
            cx.waker().wake_by_ref();
            return Poll::Pending;
        }
        this.pending_given = false;
        this.calls += 1;
        let n = buf.len().min(this.max);
        this.out.extend_from_slice(&buf[..n]);
        Poll::Ready(Ok(n))
    }
    fn poll_write_vectored(self: Pin<&mut Self>, cx: &mut Context<'_>, bufs: &[io::IoSlice<'_>]) -> Poll<io::Result<usize>> {
        let this = self.get_mut();
        if this.pend_mask >> (this.calls % 64) & 1 == 1 && !this.pending_given {
            this.pending_given = true;
            cx.waker().wake_by_ref();
            return Poll::Pending;
        }
        this.pending_given = false;
        this.calls += 1;
        let mut left = this.max;
        let mut n = 0;
        for b in bufs {
            let k = b.len().min(left);
            this.out.extend_from_slice(&b[..k]);
            n += k;
            left -= k;
            if left == 0 {
                break;
            }
        }
        Poll::Ready(Ok(n))
    }
    fn is_write_vectored(&self) -> bool {
        self.vectored
    }
    fn poll_flush(self: Pin<&mut Self>, _cx: &mut Context<'_>) -> Poll<io::Result<()>> {
        Poll::Ready(Ok(()))
    }
    fn poll_shutdown(self: Pin<&mut Self>, _cx: &mut Context<'_>) -> Poll<io::Result<()>> {
        Poll::Ready(Ok(()))
    }
}

// ---------------------------------------------------------------------------------------------
// synchronous sink that accepts at most `max` bytes per write (plain and vectored, the cut may fall
// inside any slice) and answers some calls with ErrorKind::Interrupted (write_all must retry)

pub struct PartialSyncSink {
    pub out: Vec<u8>,
    pub max: usize,
    pub interrupt_mask: u64,
    pub calls: usize,
    interrupted: bool,
}
impl PartialSyncSink {
    /// same encoding as `PartialSink::new`: low 7 bits = bytes per write
    pub fn new(max: usize, interrupt_mask: u64) -> Self {
        PartialSyncSink { out: vec![], max: (max & 0x7f).max(1), interrupt_mask, calls: 0, interrupted: false }
    }
    fn gate(&mut self) -> io::Result<()> {
        if self.interrupt_mask >> (self.calls % 64) & 1 == 1 && !self.interrupted {
            self.interrupted = true;
            return Err(io::Error::new(io::ErrorKind::Interrupted, "qxv: interrupted write"));
        }
        self.interrupted = false;
        self.calls += 1;
        Ok(())
    }
}
impl io::Write for PartialSyncSink {
    fn write(&mut self, buf: &[u8]) -> io::Result<usize> {
        self.gate()?;
        let n = buf.len().min(self.max);
        self.out.extend_from_slice(&buf[..n]);
        Ok(n)
    }
    fn write_vectored(&mut self, bufs: &[io::IoSlice<'_>]) -> io::Result<usize> {
        self.gate()?;
        let mut left = self.max;
        let mut n = 0;
        for b in bufs {
            let k = b.len().min(left);
            self.out.extend_from_slice(&b[..k]);
            n += k;
            left -= k;
            if left == 0 {
                break;
            }
        }
        Ok(n)
    }
    fn flush(&mut self) -> io::Result<()> {
        Ok(())
    }
}
