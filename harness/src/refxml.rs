//! Reference tokenizer for quick-xml's lexical grammar ("neutral lexing"): byte-at-a-time,
//! written from the documentation, shares no code with the library (no memchr, no helpers).

#[derive(Debug, Clone, PartialEq, Eq)]
pub enum Tok {
    Text(Vec<u8>),
    /// content between `<` and `>`, length of the name
    Start(Vec<u8>, usize),
    /// content between `<` and `/>`, length of the name
    Empty(Vec<u8>, usize),
    /// content between `</` and `>` (untrimmed)
    End(Vec<u8>),
    Comment(Vec<u8>),
    CData(Vec<u8>),
    Decl(Vec<u8>),
    /// content between `<?` and `?>`, length of the target
    PI(Vec<u8>, usize),
    DocType(Vec<u8>),
    /// `<!DOCTYPE>` without a name: recoverable error, the construct is consumed
    ErrMissingDoctypeName,
    /// terminal syntax error of the given kind; the rest of the input is not tokenised
    ErrSyntax(&'static str),
}

#[derive(Debug, Clone)]
pub struct Lexed {
    pub tok: Tok,
    /// offset of the first byte of the construct in the raw input
    pub start: usize,
    /// offset just after the construct in the raw input
    pub end: usize,
}

pub fn ws(b: u8) -> bool {
    matches!(b, b' ' | b'\t' | b'\r' | b'\n')
}

pub fn name_len(c: &[u8]) -> usize {
    let mut i = 0;
    while i < c.len() && !ws(c[i]) {
        i += 1;
    }
    i
}

fn find_sub(h: &[u8], from: usize, needle: &[u8]) -> Option<usize> {
    if h.len() < needle.len() {
        return None;
    }
    let mut i = from;
    while i + needle.len() <= h.len() {
        if &h[i..i + needle.len()] == needle {
            return Some(i);
        }
        i += 1;
    }
    None
}

/// first `>` at or after `from` that is outside `'…'` / `"…"`; the quote state starts outside
fn find_tag_end(s: &[u8], from: usize) -> Option<usize> {
    let mut q: u8 = 0;
    let mut i = from;
    while i < s.len() {
        let b = s[i];
        if q == 0 {
            if b == b'>' {
                return Some(i);
            }
            if b == b'\'' || b == b'"' {
                q = b;
            }
        } else if b == q {
            q = 0;
        }
        i += 1;
    }
    None
}

pub const UTF8_BOM: [u8; 3] = [0xEF, 0xBB, 0xBF];

pub fn bom_len(s: &[u8]) -> usize {
    if s.starts_with(&UTF8_BOM) {
        3
    } else {
        0
    }
}

pub fn lex(s: &[u8]) -> Vec<Lexed> {
    let mut out = vec![];
    let n = s.len();
    let mut pos = bom_len(s);
    loop {
        if pos >= n {
            break;
        }
        if s[pos] != b'<' {
            let mut e = pos;
            while e < n && s[e] != b'<' {
                e += 1;
            }
            out.push(Lexed { tok: Tok::Text(s[pos..e].to_vec()), start: pos, end: e });
            pos = e;
            continue;
        }
        let p = pos + 1;
        let st = pos;
        macro_rules! fatal {
            ($k:expr) => {{
                out.push(Lexed { tok: Tok::ErrSyntax($k), start: st, end: n });
                return out;
            }};
        }
        if p >= n {
            fatal!("UnclosedTag");
        }
        match s[p] {
            b'!' => {
                if p + 1 >= n {
                    fatal!("InvalidBangMarkup");
                }
                match s[p + 1] {
                    b'-' => {
                        if s[p..].starts_with(b"!--") {
                            match find_sub(s, p + 3, b"-->") {
                                Some(g) => {
                                    out.push(Lexed { tok: Tok::Comment(s[p + 3..g].to_vec()), start: st, end: g + 3 });
                                    pos = g + 3;
                                }
                                None => fatal!("UnclosedComment"),
                            }
                        } else {
                            fatal!("UnclosedComment");
                        }
                    }
                    b'[' => {
                        if s[p..].starts_with(b"![CDATA[") {
                            match find_sub(s, p + 8, b"]]>") {
                                Some(g) => {
                                    out.push(Lexed { tok: Tok::CData(s[p + 8..g].to_vec()), start: st, end: g + 3 });
                                    pos = g + 3;
                                }
                                None => fatal!("UnclosedCData"),
                            }
                        } else {
                            fatal!("UnclosedCData");
                        }
                    }
                    b'D' | b'd' => {
                        let mut bal = 0i32;
                        let mut g = None;
                        let mut i = p;
                        while i < n {
                            if s[i] == b'<' {
                                bal += 1;
                            } else if s[i] == b'>' {
                                if bal == 0 {
                                    g = Some(i);
                                    break;
                                }
                                bal -= 1;
                            }
                            i += 1;
                        }
                        let g = match g {
                            Some(g) => g,
                            None => fatal!("UnclosedDoctype"),
                        };
                        let buf = &s[p..g];
                        if buf.len() < 8 || !buf[..8].eq_ignore_ascii_case(b"!DOCTYPE") {
                            fatal!("UnclosedDoctype");
                        }
                        let body = &buf[8..];
                        let mut k = 0;
                        while k < body.len() && ws(body[k]) {
                            k += 1;
                        }
                        if k < body.len() {
                            out.push(Lexed { tok: Tok::DocType(body[k..].to_vec()), start: st, end: g + 1 });
                        } else {
                            out.push(Lexed { tok: Tok::ErrMissingDoctypeName, start: st, end: g + 1 });
                        }
                        pos = g + 1;
                    }
                    _ => fatal!("InvalidBangMarkup"),
                }
            }
            b'/' => match find_tag_end(s, p) {
                Some(g) => {
                    out.push(Lexed { tok: Tok::End(s[p + 1..g].to_vec()), start: st, end: g + 1 });
                    pos = g + 1;
                }
                None => fatal!("UnclosedTag"),
            },
            b'?' => {
                let mut g = None;
                let mut i = p + 1;
                while i < n {
                    if s[i] == b'>' && s[i - 1] == b'?' {
                        g = Some(i);
                        break;
                    }
                    i += 1;
                }
                let g = match g {
                    Some(g) => g,
                    None => fatal!("UnclosedPIOrXmlDecl"),
                };
                if g - 1 == p {
                    // `<?>`: the `?` cannot be both opener and closer
                    fatal!("UnclosedPIOrXmlDecl");
                }
                let c = &s[p + 1..g - 1];
                if c.starts_with(b"xml") && (c.len() == 3 || ws(c[3])) {
                    out.push(Lexed { tok: Tok::Decl(c.to_vec()), start: st, end: g + 1 });
                } else {
                    out.push(Lexed { tok: Tok::PI(c.to_vec(), name_len(c)), start: st, end: g + 1 });
                }
                pos = g + 1;
            }
            _ => match find_tag_end(s, p) {
                Some(g) => {
                    let c = &s[p..g];
                    if c.last() == Some(&b'/') {
                        let c = &c[..c.len() - 1];
                        out.push(Lexed { tok: Tok::Empty(c.to_vec(), name_len(c)), start: st, end: g + 1 });
                    } else {
                        out.push(Lexed { tok: Tok::Start(c.to_vec(), name_len(c)), start: st, end: g + 1 });
                    }
                    pos = g + 1;
                }
                None => fatal!("UnclosedTag"),
            },
        }
    }
    out
}

/// DOCTYPE bodies with quotes or comment markers are lexed by the `<`/`>` balance only; a
/// quote/comment-aware scanner would legitimately differ, so such inputs are "ambiguous".
pub fn has_ambiguous_doctype(toks: &[Lexed], s: &[u8]) -> bool {
    for l in toks {
        let body: &[u8] = match &l.tok {
            Tok::DocType(_) | Tok::ErrMissingDoctypeName => &s[l.start..l.end],
            Tok::ErrSyntax("UnclosedDoctype") => &s[l.start..l.end],
            _ => continue,
        };
        if body.iter().any(|&b| b == b'\'' || b == b'"') || find_sub(body, 0, b"--").is_some() {
            return true;
        }
    }
    false
}

/// Inputs that start with a UTF-16 BOM or UTF-16 `<?` signature are documented as unsupported.
pub fn is_utf16_like(s: &[u8]) -> bool {
    s.starts_with(&[0xFE, 0xFF]) || s.starts_with(&[0xFF, 0xFE]) || s.starts_with(&[0x00, b'<', 0x00, b'?']) || s.starts_with(&[b'<', 0x00, b'?', 0x00])
}
