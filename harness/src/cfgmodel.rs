//! The documented effect of the seven reader switches on the neutral token stream, as a
//! step-by-step checker ("walker"). It is fed the reference tokens of the input and, one call
//! at a time, the configuration in force at that call and the record the reader returned; it
//! says whether that record is one the documentation allows.
//!
//! The open-element stack is tracked as a *set* of possible stacks: whether an end tag that is
//! reported as mismatched closes the innermost element is fixed neither by the property nor by
//! the documentation, so both continuations are kept.

use crate::rec::*;
use crate::refxml::{ws, Lexed, Tok};

pub const F6: &str = "F6-empty-text-trim-end-only";

#[derive(Debug)]
pub struct Walker<'a> {
    pub data: &'a [u8],
    pub toks: &'a [Lexed],
    pub bom: usize,
    pub i: usize,
    pub stacks: Vec<Vec<Vec<u8>>>,
    pub pending_end: Option<(Vec<u8>, u64)>,
    pub finished: bool,
    pub f6_hits: u32,
    /// number of records that the configuration changed relative to the neutral stream
    pub changed: u32,
    /// compare `buffer_position` (off for sources that legitimately differ)
    pub check_pos: bool,
    /// a blank end-tag name `</ >` under name trimming: both "" and the blanks are accepted
    pub lenient_blank_end: bool,
    /// the input contains an XML declaration that may switch the decoder (feature `encoding`)
    pub declares_encoding: bool,
    /// the set of possible stacks became too large; end tags are checked leniently from then on
    pub overflow: bool,
}

fn lossy(b: &[u8]) -> String {
    String::from_utf8_lossy(b).into_owned()
}

pub enum Step {
    Ok,
    /// the record is explained only by known finding F6
    KnownF6,
    Bad(String),
}

impl<'a> Walker<'a> {
    pub fn new(data: &'a [u8], toks: &'a [Lexed]) -> Self {
        Walker {
            data,
            toks,
            bom: crate::refxml::bom_len(data),
            i: 0,
            stacks: vec![vec![]],
            pending_end: None,
            finished: false,
            f6_hits: 0,
            changed: 0,
            check_pos: true,
            lenient_blank_end: true,
            overflow: false,
            declares_encoding: toks.iter().any(|l| matches!(l.tok, Tok::Decl(_))) || data.starts_with(b"<?xm"),
        }
    }

    fn pos_of(&self, l: &Lexed) -> u64 {
        (l.end - self.bom) as u64
    }

    /// Does the name string carried by an error stand for these name bytes? Names are decoded
    /// with the reader's decoder; what an error carries for a name that cannot be decoded is not
    /// documented, so only decodable names are compared (ASCII always; other valid UTF-8 unless
    /// the document declares an encoding).
    fn name_matches(&self, shown: &str, bytes: &[u8]) -> bool {
        if bytes.is_ascii() {
            return shown.as_bytes() == bytes;
        }
        match std::str::from_utf8(bytes) {
            Ok(s) if !self.declares_encoding => s == shown,
            _ => true,
        }
    }

    /// Consume one reader record obtained under configuration `bits`.
    pub fn step(&mut self, bits: u8, actual: &Rec) -> Step {
        if let Some((name, pos)) = self.pending_end.take() {
            // the synthesized end of an expanded empty element: emitted whatever the flags are now
            let want = Ev::End(name.into());
            if actual.ev != want {
                return Step::Bad(format!("after an expanded empty element expected {:?}, got {:?}", want, actual.ev));
            }
            if self.check_pos && actual.pos != pos {
                return Step::Bad(format!("synthesized End reports position {}, its Start reported {}", actual.pos, pos));
            }
            return Step::Ok;
        }
        if self.finished {
            return if actual.ev == Ev::Eof { Step::Ok } else { Step::Bad(format!("after the end of the stream expected Eof, got {:?}", actual.ev)) };
        }
        loop {
            if self.i >= self.toks.len() {
                self.finished = true;
                let want_pos = (self.data.len() - self.bom) as u64;
                if actual.ev != Ev::Eof {
                    return Step::Bad(format!("expected Eof at end of input, got {:?}", actual.ev));
                }
                if self.check_pos && actual.pos != want_pos {
                    return Step::Bad(format!("Eof position {} != input length {}", actual.pos, want_pos));
                }
                return Step::Ok;
            }
            let l = &self.toks[self.i];
            let pos = self.pos_of(l);
            let (want, known): (Ev, bool) = match &l.tok {
                Tok::Text(t) => {
                    let mut a = 0;
                    let mut b = t.len();
                    if bits & TRIM_START != 0 {
                        while a < b && ws(t[a]) {
                            a += 1;
                        }
                    }
                    if bits & TRIM_END != 0 {
                        while b > a && ws(t[b - 1]) {
                            b -= 1;
                        }
                    }
                    if (a, b) != (0, t.len()) {
                        self.changed += 1;
                    }
                    if a == b {
                        // documented: a text event that becomes empty is dropped
                        self.i += 1;
                        let at_eof = l.end == self.data.len();
                        if bits & TRIM_START == 0 && bits & TRIM_END != 0 && !at_eof {
                            if let Ev::Text(x) = &actual.ev {
                                if x.is_empty() && (!self.check_pos || actual.pos == pos) {
                                    self.f6_hits += 1;
                                    return Step::KnownF6;
                                }
                            }
                        }
                        continue;
                    }
                    (Ev::Text(t[a..b].to_vec().into()), false)
                }
                Tok::Start(c, n) => {
                    for s in self.stacks.iter_mut() {
                        s.push(c[..*n].to_vec());
                    }
                    (Ev::Start(c.clone().into(), *n), false)
                }
                Tok::Empty(c, n) => {
                    if bits & EXPAND_EMPTY != 0 {
                        self.changed += 1;
                        self.pending_end = Some((c[..*n].to_vec(), pos));
                        (Ev::Start(c.clone().into(), *n), false)
                    } else {
                        (Ev::Empty(c.clone().into(), *n), false)
                    }
                }
                Tok::End(c) => {
                    let mut name: &[u8] = &c[..];
                    let mut blank = false;
                    if bits & TRIM_NAMES != 0 {
                        let mut e = c.len();
                        while e > 0 && ws(c[e - 1]) {
                            e -= 1;
                        }
                        if e == 0 && !c.is_empty() {
                            blank = true; // all-blank name: nothing documented, see lenient_blank_end
                        } else {
                            if e != c.len() {
                                self.changed += 1;
                            }
                            name = &c[..e];
                        }
                    }
                    self.i += 1;
                    let errpos = (l.start - self.bom) as u64;
                    let mut next: Vec<Vec<Vec<u8>>> = vec![];
                    let mut wants = vec![];
                    let names: Vec<&[u8]> = if blank && self.lenient_blank_end { vec![name, &c[..0]] } else { vec![name] };
                    for st in &self.stacks {
                        for nm in &names {
                            let mut popped = st.clone();
                            match popped.pop() {
                                Some(top) => {
                                    if bits & CHECK_END_NAMES != 0 && *nm != &top[..] {
                                        if let Ev::Mismatch(e, f) = &actual.ev {
                                            if self.name_matches(e, &top) && self.name_matches(f, nm) {
                                                next.push(popped);
                                                next.push(st.clone());
                                            }
                                        }
                                        wants.push(Ev::Mismatch(lossy(&top), lossy(nm)));
                                    } else {
                                        let w = Ev::End(nm.to_vec().into());
                                        if actual.ev == w {
                                            next.push(popped);
                                        }
                                        wants.push(w);
                                    }
                                }
                                None => {
                                    if bits & ALLOW_UNMATCHED == 0 {
                                        if let Ev::Unmatched(f) = &actual.ev {
                                            if self.name_matches(f, nm) {
                                                next.push(vec![]);
                                            }
                                        }
                                        wants.push(Ev::Unmatched(lossy(nm)));
                                    } else {
                                        let w = Ev::End(nm.to_vec().into());
                                        if actual.ev == w {
                                            next.push(vec![]);
                                        }
                                        wants.push(w);
                                    }
                                }
                            }
                        }
                    }
                    if next.is_empty() && self.overflow {
                        let ok = match &actual.ev {
                            Ev::End(n) => names.iter().any(|nm| &n.0[..] == *nm),
                            Ev::Mismatch(_, f) => bits & CHECK_END_NAMES != 0 && names.iter().any(|nm| self.name_matches(f, nm)),
                            Ev::Unmatched(f) => bits & ALLOW_UNMATCHED == 0 && names.iter().any(|nm| self.name_matches(f, nm)),
                            _ => false,
                        };
                        if ok {
                            next = std::mem::take(&mut self.stacks);
                        }
                    }
                    if next.is_empty() {
                        wants.sort_by_key(|w| format!("{:?}", w));
                        wants.dedup();
                        wants.truncate(6);
                        return Step::Bad(format!("end tag {:?}: expected one of {:?}, got {:?}", lossy(c), wants, actual.ev));
                    }
                    if actual.ev.is_err() {
                        self.changed += 1;
                        if actual.err_pos != errpos {
                            return Step::Bad(format!("{:?}: error position {} but the end tag starts at {}", actual.ev, actual.err_pos, errpos));
                        }
                    }
                    next.sort();
                    next.dedup();
                    if next.len() > 256 {
                        // too many possible stacks to track: from here on end tags are only
                        // checked for their own name (counted by the caller as a class)
                        self.overflow = true;
                    }
                    self.stacks = next;
                    if self.check_pos && actual.pos != pos {
                        return Step::Bad(format!("{:?}: position {} expected {}", actual.ev, actual.pos, pos));
                    }
                    return Step::Ok;
                }
                Tok::Comment(c) => {
                    if bits & CHECK_COMMENTS != 0 && (c.windows(2).any(|w| w == b"--") || c.last() == Some(&b'-')) {
                        self.changed += 1;
                        (Ev::DoubleHyphen, false)
                    } else {
                        (Ev::Comment(c.clone().into()), false)
                    }
                }
                Tok::CData(c) => (Ev::CData(c.clone().into()), false),
                Tok::Decl(c) => (Ev::Decl(c.clone().into()), false),
                Tok::PI(c, n) => (Ev::PI(c.clone().into(), *n), false),
                Tok::DocType(c) => (Ev::DocType(c.clone().into()), false),
                Tok::ErrMissingDoctypeName => (Ev::MissingDoctypeName, false),
                Tok::ErrSyntax(k) => {
                    self.i += 1;
                    self.finished = true;
                    let want = Ev::Syntax(k.to_string());
                    if actual.ev != want {
                        return Step::Bad(format!("input ends inside a construct: expected {:?}, got {:?}", want, actual.ev));
                    }
                    let errpos = (l.start - self.bom) as u64;
                    if actual.err_pos != errpos {
                        return Step::Bad(format!("{:?}: error position {} but the construct starts at {}", want, actual.err_pos, errpos));
                    }
                    return Step::Ok;
                }
            };
            let _ = known;
            self.i += 1;
            if actual.ev != want {
                return Step::Bad(format!("token {}: expected {:?}, got {:?}", self.i - 1, want, actual.ev));
            }
            if self.check_pos && actual.pos != pos {
                return Step::Bad(format!("{:?}: position {} expected {}", want, actual.pos, pos));
            }
            return Step::Ok;
        }
    }
}

/// Check a complete record list obtained under one static configuration.
/// Returns (f6 occurrences, records changed by the configuration) or the first discrepancy.
pub fn check_static(data: &[u8], toks: &[Lexed], bits: u8, recs: &[Rec]) -> Result<(u32, u32), String> {
    let mut w = Walker::new(data, toks);
    for (k, r) in recs.iter().enumerate() {
        match w.step(bits, r) {
            Step::Ok | Step::KnownF6 => {}
            Step::Bad(m) => return Err(format!("call {}: {}", k, m)),
        }
    }
    if !w.finished {
        return Err(format!("reader stopped after {} calls before the end of the token stream (token {} of {})", recs.len(), w.i, toks.len()));
    }
    Ok((w.f6_hits, w.changed))
}
