use qxv::engine::{self, Ctx, Tier};
use qxv::props;

fn usage() -> ! {
    eprintln!("usage: qxv check <Cxx> [--tier quick|thorough] [--seed N] [--merge-from FILE] [--out FILE]\n       qxv replay <file.json>\n       qxv variants <Cxx>\n       qxv list");
    std::process::exit(3)
}

fn main() {
    let args: Vec<String> = std::env::args().skip(1).collect();
    if args.is_empty() {
        usage();
    }
    match args[0].as_str() {
        "list" => {
            for p in props::all() {
                println!("{} {}", p.id, p.variants.join(","));
            }
        }
        "variants" => {
            let p = props::find(args.get(1).map(|s| s.as_str()).unwrap_or("")).unwrap_or_else(|| usage());
            println!("{}", p.variants.join(" "));
        }
        "check" => {
            let id = args.get(1).cloned().unwrap_or_else(|| usage());
            let mut tier = match std::env::var("VERIF_TIER").ok().as_deref() {
                Some("thorough") => Tier::Thorough,
                _ => Tier::Quick,
            };
            let mut seed: u64 = std::env::var("VERIF_SEED").ok().and_then(|s| s.trim().parse::<i128>().ok()).map(|v| v as u64).unwrap_or(1);
            let mut merge: Option<String> = None;
            let mut out = format!("{}/evidence/{}.json", engine::VERIF_ROOT, id);
            let mut i = 2;
            while i < args.len() {
                match args[i].as_str() {
                    "--tier" => {
                        tier = if args.get(i + 1).map(|s| s.as_str()) == Some("thorough") { Tier::Thorough } else { Tier::Quick };
                        i += 1;
                    }
                    "--seed" => {
                        seed = args.get(i + 1).and_then(|s| s.parse::<i128>().ok()).map(|v| v as u64).unwrap_or(seed);
                        i += 1;
                    }
                    "--merge-from" => {
                        merge = args.get(i + 1).cloned();
                        i += 1;
                    }
                    "--out" => {
                        out = args.get(i + 1).cloned().unwrap_or(out);
                        i += 1;
                    }
                    _ => usage(),
                }
                i += 1;
            }
            let p = props::find(&id).unwrap_or_else(|| {
                eprintln!("unknown property {}", id);
                std::process::exit(3)
            });
            engine::install_quiet_panic_hook();
            let ctx: &'static Ctx = Box::leak(Box::new(Ctx::new(&id, tier, seed)));
            engine::spawn_watchdog(ctx, 300, tier.pick(1500, 6 * 3600));
            (p.run)(ctx);
            let code = ctx.finish(p.rule, p.assumptions, p.level, merge.as_deref(), &out);
            std::process::exit(code);
        }
        "replay" => {
            let path = args.get(1).cloned().unwrap_or_else(|| usage());
            let txt = std::fs::read_to_string(&path).expect("cannot read replay file");
            let v: serde_json::Value = serde_json::from_str(&txt).expect("replay file is not JSON");
            let id = v["property"].as_str().expect("replay file has no property").to_string();
            if let Some(var) = v["variant"].as_str() {
                if var != qxv::VARIANT {
                    eprintln!("note: the case was found with feature set `{}`, this binary is `{}`", var, qxv::VARIANT);
                }
            }
            let p = props::find(&id).expect("unknown property in replay file");
            engine::install_quiet_panic_hook();
            let stage = v["stage"].as_str().unwrap_or("");
            let known = engine::load_known_findings();
            match engine::guarded_replay(|| (p.replay)(stage, &v["case"])) {
                Ok(verdict) => {
                    let mut fail = verdict.fail.clone();
                    for k in &verdict.known {
                        if known.iter().any(|f| f.property == id && f.signature == *k && f.status == "known") {
                            println!("KNOWN-FINDING: property={} signature={}", id, k);
                        } else if fail.is_none() {
                            fail = Some(format!("discrepancy with signature `{}` (not listed as a known finding)", k));
                        }
                    }
                    if let Some(m) = fail {
                        println!("{}", m);
                        println!("VIOLATION property={} replay={}", id, path);
                        std::process::exit(1);
                    }
                    println!("replay passes: nontrivial={} classes={:?} excluded={:?}", verdict.nontrivial, verdict.classes, verdict.excluded);
                }
                Err(e) => {
                    eprintln!("cannot replay: {}", e);
                    std::process::exit(3);
                }
            }
        }
        _ => usage(),
    }
}
