use qxv::engine::{self, Ctx, Tier};
use qxv::props;

fn usage() -> ! {
    eprintln!("usage: qxv check <Cxx> [--tier quick|thorough] [--seed N] [--merge-from FILE] [--out FILE]\n       qxv replay <file.json>\n       qxv variants <Cxx>\n       qxv list");
    std::process::exit(3)
}

fn main() {
    let args: Vec<String> = std::env::args().skip(1).collect();
    if args.is_empty() {
        usage();
    }
    match args[0].as_str() {
        "dyn" => {
            // qxv dyn <script.json | choices as comma list> <xml> : debug aid for the scripted targets
            let xml = args.get(2).cloned().unwrap_or_default();
            let script: qxv::dynde::Script = match std::fs::read_to_string(&args[1]) {
                Ok(t) => serde_json::from_str(&t).expect("script json"),
                Err(_) => {
                    let ch: Vec<u8> = args[1].split(',').filter_map(|x| x.trim().parse().ok()).collect();
                    qxv::dynde::script_from_doc(args.get(3).map(|s| s.as_str()).unwrap_or(&xml), &ch)
                }
            };
            println!("script: {:?}", script);
            qxv::dynde::set_budget(100000);
            println!("from_str: {:?}", qxv::dynde::from_str(&script, &xml));
            println!("steps: {}", qxv::dynde::steps());
        }
        "list" => {
            for p in props::all() {
                println!("{} {}", p.id, p.variants.join(","));
            }
        }
        "variants" => {
            let p = props::find(args.get(1).map(|s| s.as_str()).unwrap_or("")).unwrap_or_else(|| usage());
            println!("{}", p.variants.join(" "));
        }
        "check" => {
            let id = args.get(1).cloned().unwrap_or_else(|| usage());
            let mut tier = match std::env::var("VERIF_TIER").ok().as_deref() {
                Some("thorough") => Tier::Thorough,
                _ => Tier::Quick,
            };
            let mut seed: u64 = std::env::var("VERIF_SEED").ok().and_then(|s| s.trim().parse::<i128>().ok()).map(|v| v as u64).unwrap_or(1);
            let mut merge: Option<String> = None;
            let mut out = format!("{}/evidence/{}.json", engine::VERIF_ROOT, id);
            let mut i = 2;
            while i < args.len() {
                match args[i].as_str() {
                    "--tier" => {
                        tier = if args.get(i + 1).map(|s| s.as_str()) == Some("thorough") { Tier::Thorough } else { Tier::Quick };
                        i += 1;
                    }
                    "--seed" => {
                        seed = args.get(i + 1).and_then(|s| s.parse::<i128>().ok()).map(|v| v as u64).unwrap_or(seed);
                        i += 1;
                    }
                    "--merge-from" => {
                        merge = args.get(i + 1).cloned();
                        i += 1;
                    }
                    "--out" => {
                        out = args.get(i + 1).cloned().unwrap_or(out);
                        i += 1;
                    }
                    _ => usage(),
                }
                i += 1;
            }
            let p = props::find(&id).unwrap_or_else(|| {
                eprintln!("unknown property {}", id);
                std::process::exit(3)
            });
            engine::install_quiet_panic_hook();
            let ctx: &'static Ctx = Box::leak(Box::new(Ctx::new(&id, tier, seed)));
            engine::spawn_watchdog(ctx, 300, tier.pick(1500, 6 * 3600));
            (p.run)(ctx);
            let code = ctx.finish(p.rule, p.assumptions, p.level, merge.as_deref(), &out);
            std::process::exit(code);
        }
        "fuzz-seeds" => {
            // qxv fuzz-seeds <Cxx> <dir>: write a small starting corpus (4 header bytes + input)
            let prop = args.get(1).cloned().unwrap_or_else(|| usage());
            let dir = args.get(2).cloned().unwrap_or_else(|| usage());
            std::fs::create_dir_all(&dir).expect("cannot create corpus dir");
            let mut inputs: Vec<Vec<u8>> = vec![];
            for (_, d) in qxv::gen::corpus() {
                if d.len() <= 600 {
                    inputs.push(d);
                }
            }
            for f in qxv::gen::FRAGMENTS {
                inputs.push(f.to_vec());
            }
            if prop == "C11" {
                inputs = vec![b" a=\"1\" b='2'".to_vec(), b" a=\"1\" a=\"x y\" b=\"2\"".to_vec(), b" k v=1 w".to_vec(), b" a = \"1\"  b".to_vec()];
            }
            if prop == "C10" {
                inputs = vec![b"&lt;a&gt; &amp; &#x41;&#65; 'q' \"d\"".to_vec(), b"&unknown; &#0; &#xD800;".to_vec(), b"plain".to_vec()];
            }
            if prop == "C07" || prop == "C14" {
                inputs = qxv::props::c07::VOCAB.iter().map(|w| w.as_bytes().to_vec()).collect();
                inputs.push(b"<Elems><a>x</a><b>1</b><c>true</c><e>Red</e><f>y</f><g>2</g></Elems>".to_vec());
                inputs.push(b"<MixedList k=\"\"><Unit/>t<Newtype>n</Newtype><Struct y=\"\"><x>1</x></Struct></MixedList>".to_vec());
                inputs.push(b"<Nested id=\"1\"><inner a=\"\"><v>x</v></inner><list a=\"\"><v/></list><tail>t</tail></Nested>".to_vec());
            }
            if prop == "C15" {
                inputs = vec![];
                for d in [
                    "<Elems><a>x y</a><b>1</b><c>true</c><e>Red</e><f>y</f><g>2</g></Elems>",
                    "<MixedList k=\"'\"><Unit/>t &amp; u<Newtype>n</Newtype><Struct y=\"\"><x>1</x></Struct></MixedList>",
                    "<Nested id=\"1\"><inner a=\"&lt;\"><v>x</v></inner><list a=\"\"><v/></list><list a='q'><v>w</v></list><tail>t</tail></Nested>",
                    "<r><u>x</u> <a>1</a><![CDATA[ c ]]> t<zz><e>x</e> y</zz>\n  <a/></r>",
                    "<XsLists nums=\"1 2 3\" words=\"a b\">x y z</XsLists>",
                    "<a>1</a><a>2</a>text<b/>",
                    "<r xmlns:xsi=\"http://www.w3.org/2001/XMLSchema-instance\"><a xsi:nil=\"true\">2</a><b k=\"1\"/></r>",
                ] {
                    let mut v = vec![0u8];
                    v.extend_from_slice(d.as_bytes());
                    inputs.push(v);
                    let mut v = vec![4u8, 0, 86, 0, 182];
                    v.extend_from_slice(d.as_bytes());
                    inputs.push(v);
                }
            }
            if prop == "C07" || prop == "C14" {
                // generated target types: header flag + [k][choices][document]
                let flag: u8 = if prop == "C07" { 2 } else { 0x20 };
                let docs: Vec<Vec<u8>> = inputs.iter().rev().take(3).cloned().collect();
                for (k, d) in docs.iter().enumerate() {
                    for choices in [vec![0u8], vec![3u8, 0, 86, 200]] {
                        let mut v = vec![k as u8, flag | (k as u8 & 1), 0x55, 3];
                        v.extend_from_slice(&choices);
                        v.extend_from_slice(d);
                        let _ = std::fs::write(format!("{}/seed-dyn-{}-{}", dir, k, choices.len()), v);
                    }
                }
            }
            for (k, inp) in inputs.iter().enumerate() {
                for hdr in [[0u8, 0, 0, 0], [127, 0x41, 3, 1], [(k as u8).wrapping_mul(37), 0x85, 0x55, 2]] {
                    let mut v = hdr.to_vec();
                    v.extend_from_slice(inp);
                    let _ = std::fs::write(format!("{}/seed-{:03}-{:02x}", dir, k, hdr[0]), v);
                }
            }
            println!("wrote {} seeds to {}", inputs.len() * 3, dir);
        }
        "fuzz-stats" => {
            // qxv fuzz-stats <Cxx> <corpus dir>...: run every corpus file through the oracle and print
            // how many decode, are excluded, are non-trivial, and the class histogram (JSON)
            let prop = args.get(1).cloned().unwrap_or_else(|| usage());
            engine::install_quiet_panic_hook();
            let (mut files, mut decoded, mut excluded, mut nontrivial, mut failed) = (0u64, 0u64, 0u64, 0u64, 0u64);
            let mut classes: std::collections::BTreeMap<String, u64> = Default::default();
            let mut excl: std::collections::BTreeMap<String, u64> = Default::default();
            for dir in &args[2..] {
                let rd = match std::fs::read_dir(dir) {
                    Ok(r) => r,
                    Err(_) => continue,
                };
                for e in rd.filter_map(|e| e.ok()) {
                    let data = match std::fs::read(e.path()) {
                        Ok(d) => d,
                        Err(_) => continue,
                    };
                    files += 1;
                    if let Some((_, v)) = qxv::fuzz::run(&prop, &data) {
                        decoded += 1;
                        if let Some(x) = v.excluded {
                            excluded += 1;
                            *excl.entry(x.to_string()).or_default() += 1;
                        } else if v.nontrivial {
                            nontrivial += 1;
                        }
                        if v.fail.is_some() {
                            failed += 1;
                        }
                        for c in &v.classes {
                            *classes.entry(c.to_string()).or_default() += 1;
                        }
                    }
                }
            }
            println!("{}", serde_json::json!({"corpus_files": files, "decoded": decoded, "excluded": excluded, "excluded_by_reason": excl, "nontrivial": nontrivial, "failed": failed, "classes": classes}));
        }
        "fuzz-artifact" => {
            // qxv fuzz-artifact <Cxx> <artifact file>: re-run a libFuzzer input through the oracle
            // and, if it fails, store it as a normal replay file
            let prop = args.get(1).cloned().unwrap_or_else(|| usage());
            let path = args.get(2).cloned().unwrap_or_else(|| usage());
            let data = std::fs::read(&path).expect("cannot read artifact");
            engine::install_quiet_panic_hook();
            match qxv::fuzz::run(&prop, &data) {
                None => {
                    println!("artifact does not decode to a case of {}", prop);
                    std::process::exit(3);
                }
                Some((case, v)) => {
                    let known = engine::load_known_findings();
                    let mut fail = v.fail.clone();
                    for k in &v.known {
                        if !known.iter().any(|f| f.property == prop && f.signature == *k && f.status == "known") && fail.is_none() {
                            fail = Some(format!("discrepancy with signature `{}`", k));
                        }
                    }
                    match fail {
                        Some(m) => {
                            let body = serde_json::json!({"property": prop, "stage": "fuzz", "variant": qxv::VARIANT, "seed": 0, "message": m, "case": case});
                            let dir = format!("{}/replays/{}", engine::VERIF_ROOT, prop);
                            let _ = std::fs::create_dir_all(&dir);
                            let out = format!("{}/fuzz-{:016x}.json", dir, engine::fnv(&data));
                            std::fs::write(&out, serde_json::to_string_pretty(&body).unwrap()).expect("cannot write replay");
                            eprintln!("[{}] fuzz artifact fails: {}", prop, m);
                            println!("VIOLATION property={} replay={}", prop, out);
                            std::process::exit(1);
                        }
                        None => {
                            println!("artifact passes the oracle of {}", prop);
                        }
                    }
                }
            }
        }
        "replay" => {
            let path = args.get(1).cloned().unwrap_or_else(|| usage());
            let txt = std::fs::read_to_string(&path).expect("cannot read replay file");
            let v: serde_json::Value = serde_json::from_str(&txt).expect("replay file is not JSON");
            let id = v["property"].as_str().expect("replay file has no property").to_string();
            if let Some(var) = v["variant"].as_str() {
                if var != qxv::VARIANT {
                    eprintln!("note: the case was found with feature set `{}`, this binary is `{}`", var, qxv::VARIANT);
                }
            }
            let p = props::find(&id).expect("unknown property in replay file");
            engine::install_quiet_panic_hook();
            let stage = v["stage"].as_str().unwrap_or("");
            let known = engine::load_known_findings();
            match engine::guarded_replay(|| (p.replay)(stage, &v["case"])) {
                Ok(verdict) => {
                    let mut fail = verdict.fail.clone();
                    for k in &verdict.known {
                        if known.iter().any(|f| f.property == id && f.signature == *k && f.status == "known") {
                            println!("KNOWN-FINDING: property={} signature={}", id, k);
                        } else if fail.is_none() {
                            fail = Some(format!("discrepancy with signature `{}` (not listed as a known finding)", k));
                        }
                    }
                    if let Some(m) = fail {
                        println!("{}", m);
                        println!("VIOLATION property={} replay={}", id, path);
                        std::process::exit(1);
                    }
                    println!("replay passes: nontrivial={} classes={:?} excluded={:?}", verdict.nontrivial, verdict.classes, verdict.excluded);
                }
                Err(e) => {
                    eprintln!("cannot replay: {}", e);
                    std::process::exit(3);
                }
            }
        }
        _ => usage(),
    }
}
