//! Input generators shared by the reader properties.

use crate::engine::{SplitMix64, B};
use proptest::prelude::*;

/// markup-significant bytes
pub const SIGMA1: &[u8] = b"<>/!?-[]'\" a=";

/// second byte alphabet: name ends at TAB/LF as well as SP, `<?xml` + blank classification
pub const SIGMA2: &[u8] = b"<>/?xml\t\n '=";

/// third byte alphabet: what is and is not XML whitespace (SP TAB LF CR are; FF, VT, NUL, 0x85, 0xA0 are
/// character data) around markup — trimming options must treat exactly the first four as blanks
pub const SIGMA3: &[u8] = b"<>/ \t\n\r\x0c\x0bx\x00\xa0";

/// token alphabet: reaches CDATA / DOCTYPE / declarations, which byte enumeration cannot at
/// small lengths
pub const TOKENS: &[&[u8]] = &[
    b"<a", b"</a", b"<b", b">", b"/>", b"<!--", b"-->", b"--", b"-", b"<![CDATA[", b"]]>", b"]]", b"]", b"<?", b"?>", b"?", b"xml", b"<!DOCTYPE", b"<!d", b"<", b"'", b"\"", b" ", b"x", b"=", b"[",
    b"\xEF\xBB\xBF", b"\t", b"\n", b"XML",
];

/// number of strings of length <= n over an alphabet of size a
pub fn exh_count(a: u64, n: u32) -> u64 {
    let mut total = 0u64;
    let mut p = 1u64;
    for _ in 0..=n {
        total += p;
        p = p.saturating_mul(a);
    }
    total
}

/// the idx-th string in length-then-lexicographic order
pub fn exh_bytes(alpha: &[u8], mut idx: u64) -> Vec<u8> {
    let a = alpha.len() as u64;
    let mut len = 0u32;
    let mut p = 1u64;
    while idx >= p {
        idx -= p;
        p *= a;
        len += 1;
    }
    let mut out = vec![0u8; len as usize];
    for k in (0..len as usize).rev() {
        out[k] = alpha[(idx % a) as usize];
        idx /= a;
    }
    out
}

/// the idx-th token sequence (length-then-lexicographic) over `toks`, concatenated
pub fn exh_tokens(toks: &[&[u8]], mut idx: u64) -> Vec<u8> {
    let a = toks.len() as u64;
    let mut len = 0u32;
    let mut p = 1u64;
    while idx >= p {
        idx -= p;
        p *= a;
        len += 1;
    }
    let mut ids = vec![0usize; len as usize];
    for k in (0..len as usize).rev() {
        ids[k] = (idx % a) as usize;
        idx /= a;
    }
    let mut out = vec![];
    for i in ids {
        out.extend_from_slice(toks[i]);
    }
    out
}

/// fragments for the "soup" generator: tokens plus whole small constructs
pub const FRAGMENTS: &[&[u8]] = &[
    b"<a", b"</a", b"<b", b">", b"/>", b"<!--", b"-->", b"--", b"-", b"<![CDATA[", b"]]>", b"]]", b"]", b"<?", b"?>", b"?", b"xml", b"<!DOCTYPE", b"<!d", b"<", b"'", b"\"", b" ", b"x", b"=", b"[",
    b"<a>", b"</a>", b"<b>", b"</b>", b"<ab>", b"</ab>", b"<a/>", b"<b />", b"</a >", b"</a\t>", b"</ab \n>", b"<a k=\"v\">", b"<a k='>'>", b"<a k=\">\" j='\"'>", b"<a k = 'v' />", b"<a k=\"/\"/>",
    b"<!--c-->", b"<!---->", b"<!--a--b-->", b"<!--a--->", b"<!-->-->", b"<!--->-->", b"<![CDATA[d]]>", b"<![CDATA[]]>", b"<![CDATA[]]]]>", b"<![CDATA[>]]>", b"<![CDATA[a]]b]]>",
    b"<?pi?>", b"<?pi d?>", b"<?xml version='1.0'?>", b"<?xml?>", b"<?xmlx?>", b"<?p ?>?>", b"<?p >?>", b"<??>", b"<?>",
    b"<!DOCTYPE r>", b"<!doctype r>", b"<!DOCTYPE>", b"<!DOCTYPE >", b"<!DOCTYPE r [<!ENTITY e 'v'>]>", b"<!DOCTYPE r [<!ELEMENT r (#PCDATA)><!-- c -->]>", b"<!DOCTYPEr>",
    b"text", b" ", b"\t", b"\r\n", b"\n", b"  x  ", b"&amp;", b"&lt;", b"&#x41;", b"&#65;", b"&unknown;", b"&", b";", b"\xc3\xa9", b"\xe2\x82\xac",
    b"<a\tk=\"v\">", b"<a\r\n/>", b"<a\nb>", b"</a\r>", b"<?xml\tversion='1.0'?>", b"<?xml\n?>", b"<?xml\r?>", b"<?pi\tx?>", b"<?xmlns?>", b"<a k='>' j=\">\">", b"<a k=\">\" j='>'>", b"<a k='\"' j=\"'\"/>", b"<a k=\"'>'\">",
    b"<![CDATA[]]]>", b"<![CDATA[]>]]>", b"<![CDATA[]]]]]>", b"<![CDATA[>]]]>", b"<!--->-->", b"<!---->-->", b"<!-- -- -->", b"<!--a-b-c-->", b"<?p ? ?>", b"<?p ?>x?>", b"<!DOCTYPE r [<!ELEMENT r (a|<b <c>>)>]>", b"<!DOCTYPE r [<<>><>]>", b"<!DOCTYPE\tr>", b"<!DOCTYPE\nr >",
    b"<!DoCtYpE r>", b"<a/ >", b"<a //>", b"<a/b/>", b"</a/>", b"< a>", b"<a k=v/>",
    b"\x0c", b"\x0b", b" \x0c", b"\x0c ", b"\n\x0c\n", b"\xc2\xa0", b"\xc2\x85", b"\xe2\x80\xa8", b"\x00", b"\x1f", b"\x85", b"\xa0", b" \xc2\xa0x\xc2\xa0 ", b"<a\x0c>", b"</a\x0c>", b"<a\x0ck='v'/>", b"<?pi\x0cx?>", b"<?xml\x0c?>",
    b"<caf\xe9>", b"</caf\xe9>", b"</cafe>", b"</\xff>", b"<\xff\xfe k='v'>",
    b"<p:a xmlns:p=\"&amp;\">", b"<a xmlns=\"&#38;x\">", b"<p:b xmlns:p='a&lt;b' p:k='v'/>", b"</p:a>",
    b"\xef\xbc\xa1", b"\xef\xbb\x81", b"\xef\xbb", b"\xef", b"\xfe", b"\xff\xfd",
    b"<?XML?>", b"<?Xml version='1.0'?>", b"<?xML ?>", b"XML", b"Xml", b"<?XML-x?>", b"<!doctype>", b"<![cdata[x]]>", b"<!ELEMENT r>",
    b"<a:b>", b"</a:b>", b"<a xmlns='u'>", b"<p:a xmlns:p=\"u\">", b"<![", b"<!-", b"<!D", b"<!DOCTYP", b"<![CDATA", b"!", b"/", b"\xEF\xBB\xBF",
    // UTF-16 byte-order marks (plain bytes for a build without `encoding`), blanks in front of the `xml` target, empty encoding labels, a PI that is a target only
    b"\xff\xfe", b"\xfe\xff", b"<? xml version='1.0'?>", b"<? xml?>", b"<?xml version='1.0' encoding=''?>", b"<?xml encoding=\"\"?>", b"<?page-break?>", b"<?xml version='1.0' encoding='x y'?>",
];

#[derive(Clone, Debug, serde::Serialize, serde::Deserialize, PartialEq)]
pub struct Soup {
    pub parts: Vec<u16>,
}
impl Soup {
    pub fn bytes(&self) -> Vec<u8> {
        let mut out = vec![];
        for &p in &self.parts {
            out.extend_from_slice(FRAGMENTS[crate::engine::scale(p, FRAGMENTS.len())]);
        }
        out
    }
}

pub fn soup_strategy(max_parts: usize) -> impl Strategy<Value = Vec<u8>> {
    prop::collection::vec(0u16..=u16::MAX, 0..=max_parts).prop_map(|parts| Soup { parts }.bytes())
}

/// Seeded soup without proptest (for sharded random sweeps where shrinking is done by the
/// length-ordered construction: fewer parts first).
pub fn soup_seeded(r: &mut SplitMix64, max_parts: u64) -> Vec<u8> {
    let n = r.below(max_parts + 1);
    let mut out = vec![];
    for _ in 0..n {
        out.extend_from_slice(FRAGMENTS[r.below(FRAGMENTS.len() as u64) as usize]);
    }
    out
}

/// Byte-level mutation of a base input: insert / delete / duplicate / swap / truncate.
pub fn mutate(r: &mut SplitMix64, base: &[u8], alphabet: &[u8], edits: u64) -> Vec<u8> {
    let mut v = base.to_vec();
    for _ in 0..edits {
        match r.below(6) {
            0 => {
                let at = r.below(v.len() as u64 + 1) as usize;
                v.insert(at, *r.pick(alphabet));
            }
            1 if !v.is_empty() => {
                let at = r.below(v.len() as u64) as usize;
                v.remove(at);
            }
            2 if !v.is_empty() => {
                let at = r.below(v.len() as u64) as usize;
                let len = (r.below(8) as usize + 1).min(v.len() - at);
                let piece: Vec<u8> = v[at..at + len].to_vec();
                let to = r.below(v.len() as u64 + 1) as usize;
                for (k, b) in piece.into_iter().enumerate() {
                    v.insert(to + k, b);
                }
            }
            3 if v.len() >= 2 => {
                let a = r.below(v.len() as u64) as usize;
                let b = r.below(v.len() as u64) as usize;
                v.swap(a, b);
            }
            4 if !v.is_empty() => {
                let at = r.below(v.len() as u64 + 1) as usize;
                v.truncate(at);
            }
            5 if !v.is_empty() => {
                let at = r.below(v.len() as u64) as usize;
                v[at] = *r.pick(alphabet);
            }
            _ => {}
        }
    }
    v
}

/// The repository's sample documents and a few documents from its doc tests.
pub fn corpus() -> Vec<(String, Vec<u8>)> {
    let mut out = vec![];
    let dir = "/repo/tests/documents";
    let mut stack = vec![std::path::PathBuf::from(dir)];
    while let Some(d) = stack.pop() {
        if let Ok(rd) = std::fs::read_dir(&d) {
            let mut entries: Vec<_> = rd.filter_map(|e| e.ok()).map(|e| e.path()).collect();
            entries.sort();
            for p in entries {
                if p.is_dir() {
                    stack.push(p);
                } else if let Ok(b) = std::fs::read(&p) {
                    if b.len() <= 300_000 {
                        out.push((p.display().to_string(), b));
                    }
                }
            }
        }
    }
    out.sort_by(|a, b| a.0.cmp(&b.0));
    for (i, d) in EMBEDDED.iter().enumerate() {
        out.push((format!("embedded-{}", i), d.to_vec()));
    }
    out
}

pub const EMBEDDED: &[&[u8]] = &[
    b"<tag1 att1 = \"test\">\n   <tag2><!--Test comment-->Test</tag2>\n   <tag2>Test 2</tag2>\n</tag1>",
    b"<?xml version=\"1.0\" encoding=\"utf-8\"?>\n<!DOCTYPE root [<!ENTITY e \"v\">]>\n<root xmlns=\"u\" xmlns:p='v'><p:a k=\"1\" p:k='2'/><![CDATA[<x>]]>&e;<!-- c --><?pi d?></root>\n",
    b"\xEF\xBB\xBF<a> x <b/> </a >",
    b"<a><b></a></b></c>",
];

pub fn bvec(v: Vec<u8>) -> B {
    B(v)
}

// ---------------------------------------------------------------------------------------------
// size / offset sweeps: constructs whose inner length is a parameter, placed at a parameterised
// offset — scanners that work in 16/32/64-byte blocks, buffers that grow by doubling and
// positions that pass 255 / 65 535 take other paths than on the short enumerated inputs

pub const CONSTRUCT_KINDS: u64 = 14;

fn rep(b: &[u8], n: usize) -> Vec<u8> {
    let mut v = Vec::with_capacity(b.len() * n);
    for _ in 0..n {
        v.extend_from_slice(b);
    }
    v
}

/// one construct of the given kind whose variable part is `q` bytes (or items) long
pub fn construct(kind: u64, q: usize, var: u64) -> Vec<u8> {
    let fill: &[u8] = [&b"x"[..], &b"-"[..], &b"]"[..], &b"?"[..], &b" "[..], &b"\xc3\xa9"[..], &b"'"[..], &b">"[..]][(var % 8) as usize];
    let mut v = vec![];
    match kind % CONSTRUCT_KINDS {
        0 => v.extend(rep(if fill == b">" || fill == b" " { b"x" } else { fill }, q)),
        1 => {
            v.extend_from_slice(b"<a");
            v.extend(rep(b"b", q));
            v.extend_from_slice(if var % 2 == 0 { b">" } else { b"/>" });
        }
        2 => {
            let (qo, qi): (&[u8], &[u8]) = if var % 2 == 0 { (b"\"", b"'") } else { (b"'", b"\"") };
            v.extend_from_slice(b"<a k=");
            v.extend_from_slice(qo);
            v.extend(rep(if fill == qo { b"x" } else { fill }, q));
            v.extend_from_slice(b">");
            v.extend_from_slice(qi);
            v.extend_from_slice(qo);
            v.extend_from_slice(b" j='2'>");
        }
        3 => {
            v.extend_from_slice(b"<a");
            for i in 0..q {
                v.extend_from_slice(format!(" k{}=\"{}\"", i, i % 7).as_bytes());
            }
            v.extend_from_slice(if var % 2 == 0 { b">" } else { b"/>" });
        }
        4 => {
            v.extend_from_slice(b"<a");
            v.extend(rep(if var % 2 == 0 { b" " } else { b"\n" }, q));
            v.extend_from_slice(b"/>");
        }
        5 => {
            v.extend_from_slice(b"</a");
            v.extend(rep(if var % 2 == 0 { b" " } else { b"\t" }, q));
            v.extend_from_slice(b">");
        }
        6 => {
            v.extend_from_slice(b"<!--");
            v.extend(rep(if fill == b"-" { b"- " } else { fill }, q));
            v.extend_from_slice(if var % 3 == 0 { b"-x-->" } else { b"-->" });
        }
        7 => {
            v.extend_from_slice(b"<![CDATA[");
            v.extend(rep(fill, q));
            v.extend_from_slice(if var % 3 == 0 { b"]]x]]>" } else { b"]]>" });
        }
        8 => {
            v.extend_from_slice(b"<?pi ");
            v.extend(rep(fill, q));
            v.extend_from_slice(if var % 3 == 0 { b"?x?>" } else { b"?>" });
        }
        9 => {
            v.extend_from_slice(b"<!DOCTYPE r [<!ENTITY e ");
            v.extend(rep(b"x", q));
            v.extend_from_slice(b"><!ELEMENT r (a|<b <c>>)>]>");
        }
        10 => {
            let ws: &[u8] = [&b" "[..], b"\n", b"\r\n", b"\t "][(var % 4) as usize];
            v.extend(rep(ws, q));
            v.extend_from_slice(b"t");
            v.extend(rep(ws, q));
        }
        11 => {
            let r: &[u8] = [&b"&amp;"[..], b"&#65;", b"&lt;x", b"a&gt;"][(var % 4) as usize];
            v.extend(rep(r, q));
        }
        12 => {
            v.extend_from_slice(b"<?xml version=\"1.0\"");
            v.extend(rep(b" ", q));
            v.extend_from_slice(b"?>");
        }
        _ => {
            // nesting q deep
            v.extend(rep(b"<d>", q));
            v.extend_from_slice(b"t");
            v.extend(rep(b"</d>", q));
        }
    }
    v
}

/// `prefix(p) + construct(kind, q) + tail`
pub fn sweep_input(kind: u64, p: usize, q: usize, var: u64) -> Vec<u8> {
    let mut v = match (var / 8) % 4 {
        0 => rep(b"x", p),
        1 => rep(b" ", p),
        2 => {
            let mut t = rep(b"<b/>", p / 4);
            t.extend(rep(b"y", p % 4));
            t
        }
        _ => {
            let mut t = b"<r>".to_vec();
            t.extend(rep(b"\xc3\xa9", p / 2));
            t.extend(rep(b"z", p % 2));
            t
        }
    };
    v.extend(construct(kind, q, var));
    v.extend_from_slice([&b"<c/>t"[..], b"", b" </a>", b"<"][((var / 32) % 4) as usize]);
    v
}

/// lengths around the usual thresholds (block sizes, capacity doublings, u8/u16 positions, the
/// default BufReader capacity)
pub const BIG_LENGTHS: &[usize] = &[255, 256, 257, 511, 512, 513, 1000, 4095, 4096, 4097, 8191, 8192, 8193, 20000, 65535, 65536, 65537, 70001];

/// number of (kind, p, q, var) combinations of the offset sweep with p <= pmax, q <= qmax
pub fn sweep_count(pmax: u64, qmax: u64, vars: u64) -> u64 {
    CONSTRUCT_KINDS * (pmax + 1) * (qmax + 1) * vars
}

pub fn sweep_nth(i: u64, pmax: u64, qmax: u64, vars: u64) -> Vec<u8> {
    let var_i = i % vars;
    let i = i / vars;
    let q = i % (qmax + 1);
    let i = i / (qmax + 1);
    let p = i % (pmax + 1);
    let kind = i / (pmax + 1);
    // spread the variants over the whole var space deterministically
    let var = var_i.wrapping_mul(37).wrapping_add(kind * 11 + p * 5 + q * 3) % 128;
    sweep_input(kind, p as usize, q as usize, var)
}

/// the i-th large input: construct kind x big length x variant, with a short or long prefix
pub fn big_count() -> u64 {
    CONSTRUCT_KINDS * BIG_LENGTHS.len() as u64 * 4
}
pub fn big_nth(i: u64) -> Vec<u8> {
    let var = i % 4;
    let i = i / 4;
    let len = BIG_LENGTHS[(i % BIG_LENGTHS.len() as u64) as usize];
    let kind = i / BIG_LENGTHS.len() as u64;
    // many attributes / deep nesting: the parameter counts items, keep the byte size comparable
    let q = match kind % CONSTRUCT_KINDS {
        3 => len / 8,
        10 => len / 2,
        11 => len / 5,
        13 => (len / 7).min(3000),
        _ => len,
    };
    let p = [0usize, 3, 250, 8190][var as usize];
    sweep_input(kind, p, q, var * 41 + kind)
}
