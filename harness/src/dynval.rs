//! A dynamically shaped value with a hand-written `Serialize` (through `DynXml`): arbitrary
//! struct/field/variant names from hostile static pools, maps with arbitrary string keys,
//! nested sequences, bytes, options without skip. Used by C13 to push values outside the
//! round-trippable domain through the serializer.

use proptest::prelude::*;
use serde::ser::{SerializeMap, SerializeSeq, SerializeStruct, SerializeStructVariant, SerializeTuple, SerializeTupleVariant};
use serde::{Deserialize, Serialize, Serializer};

pub const STRUCT_NAMES: &[&str] = &["S", "a", "x-y", "ns:n", "\u{e9}", "", "a b", "<x>", "1a", "a>", "a\"b", "a/", "-a"];
pub const FIELD_KEYS: &[&str] = &[
    "a", "b", "c", "@a", "@b", "$text", "$value", "\u{e9}", "x.y", "xmlns", "@xmlns", "@xmlns:p", "@p:a", "p:a", "", "@", "a b", "@a b", "<x>", "@<x>", "1a", "@1a", "$other", "@@a", "a>b", "@a>b", "a\"b", "@a=\"1\" b", "@a'", "a/", "@a/", "!--", "?pi",
];
pub const VARIANTS: &[&str] = &["V", "A", "b-c", "$text", "a b", "<v>", "", "1", "@v", "v>", "v\"", "v/"];

#[derive(Clone, Debug, PartialEq, Serialize, Deserialize)]
pub enum Dyn {
    Str(String),
    Char(char),
    Bool(bool),
    I64(i64),
    U64(u64),
    /// bit pattern (NaN and infinities must survive the JSON replay files)
    F64(u64),
    Bytes(Vec<u8>),
    Unit,
    UnitStruct(u8),
    None,
    Some(Box<Dyn>),
    Newtype(u8, Box<Dyn>),
    Seq(Vec<Dyn>),
    Tuple(Vec<Dyn>),
    Map(Vec<(String, Dyn)>),
    /// (struct name index, fields: (key index, value))
    Struct(u8, Vec<(u8, Dyn)>),
    UnitVariant(u8, u8),
    NewtypeVariant(u8, u8, Box<Dyn>),
    TupleVariant(u8, u8, Vec<Dyn>),
    StructVariant(u8, u8, Vec<(u8, Dyn)>),
}

fn sname(i: u8) -> &'static str {
    STRUCT_NAMES[i as usize % STRUCT_NAMES.len()]
}
fn fkey(i: u8) -> &'static str {
    FIELD_KEYS[i as usize % FIELD_KEYS.len()]
}
fn vname(i: u8) -> &'static str {
    VARIANTS[i as usize % VARIANTS.len()]
}

pub struct DynXml<'a>(pub &'a Dyn);

struct BytesSer<'a>(&'a [u8]);
impl<'a> Serialize for BytesSer<'a> {
    fn serialize<S: Serializer>(&self, s: S) -> Result<S::Ok, S::Error> {
        s.serialize_bytes(self.0)
    }
}

impl<'a> Serialize for DynXml<'a> {
    fn serialize<S: Serializer>(&self, s: S) -> Result<S::Ok, S::Error> {
        match self.0 {
            Dyn::Str(v) => s.serialize_str(v),
            Dyn::Char(v) => s.serialize_char(*v),
            Dyn::Bool(v) => s.serialize_bool(*v),
            Dyn::I64(v) => s.serialize_i64(*v),
            Dyn::U64(v) => s.serialize_u64(*v),
            Dyn::F64(v) => s.serialize_f64(f64::from_bits(*v)),
            Dyn::Bytes(v) => BytesSer(v).serialize(s),
            Dyn::Unit => s.serialize_unit(),
            Dyn::UnitStruct(n) => s.serialize_unit_struct(sname(*n)),
            Dyn::None => s.serialize_none(),
            Dyn::Some(v) => s.serialize_some(&DynXml(v)),
            Dyn::Newtype(n, v) => s.serialize_newtype_struct(sname(*n), &DynXml(v)),
            Dyn::Seq(v) => {
                let mut q = s.serialize_seq(Some(v.len()))?;
                for x in v {
                    q.serialize_element(&DynXml(x))?;
                }
                q.end()
            }
            Dyn::Tuple(v) => {
                let mut q = s.serialize_tuple(v.len())?;
                for x in v {
                    q.serialize_element(&DynXml(x))?;
                }
                q.end()
            }
            Dyn::Map(v) => {
                let mut m = s.serialize_map(Some(v.len()))?;
                for (k, x) in v {
                    m.serialize_entry(k, &DynXml(x))?;
                }
                m.end()
            }
            Dyn::Struct(n, f) => {
                let mut st = s.serialize_struct(sname(*n), f.len())?;
                for (k, x) in f {
                    st.serialize_field(fkey(*k), &DynXml(x))?;
                }
                st.end()
            }
            Dyn::UnitVariant(n, v) => s.serialize_unit_variant(sname(*n), *v as u32, vname(*v)),
            Dyn::NewtypeVariant(n, v, x) => s.serialize_newtype_variant(sname(*n), *v as u32, vname(*v), &DynXml(x)),
            Dyn::TupleVariant(n, v, xs) => {
                let mut t = s.serialize_tuple_variant(sname(*n), *v as u32, vname(*v), xs.len())?;
                for x in xs {
                    t.serialize_field(&DynXml(x))?;
                }
                t.end()
            }
            Dyn::StructVariant(n, v, f) => {
                let mut st = s.serialize_struct_variant(sname(*n), *v as u32, vname(*v), f.len())?;
                for (k, x) in f {
                    st.serialize_field(fkey(*k), &DynXml(x))?;
                }
                st.end()
            }
        }
    }
}

impl Dyn {
    /// the same value with every string/char payload replaced by `x` (keys and names untouched)
    pub fn neutralised(&self) -> Dyn {
        let f = |v: &Vec<(u8, Dyn)>| v.iter().map(|(k, x)| (*k, x.neutralised())).collect();
        match self {
            Dyn::Str(_) => Dyn::Str("x".into()),
            Dyn::Char(_) => Dyn::Char('x'),
            Dyn::Some(v) => Dyn::Some(Box::new(v.neutralised())),
            Dyn::Newtype(n, v) => Dyn::Newtype(*n, Box::new(v.neutralised())),
            Dyn::Seq(v) => Dyn::Seq(v.iter().map(|x| x.neutralised()).collect()),
            Dyn::Tuple(v) => Dyn::Tuple(v.iter().map(|x| x.neutralised()).collect()),
            Dyn::Map(v) => Dyn::Map(v.iter().map(|(k, x)| (k.clone(), x.neutralised())).collect()),
            Dyn::Struct(n, v) => Dyn::Struct(*n, f(v)),
            Dyn::NewtypeVariant(n, va, v) => Dyn::NewtypeVariant(*n, *va, Box::new(v.neutralised())),
            Dyn::TupleVariant(n, va, v) => Dyn::TupleVariant(*n, *va, v.iter().map(|x| x.neutralised()).collect()),
            Dyn::StructVariant(n, va, v) => Dyn::StructVariant(*n, *va, f(v)),
            other => other.clone(),
        }
    }
    /// Signature of finding F19: does the value contain a sequence-like value that writes nothing (an
    /// empty sequence / tuple / tuple variant, or one made only of such) in a position where the
    /// serializer nevertheless reports "an element was written": as an ITEM of a sequence, wrapped in
    /// a newtype variant, or as an empty tuple variant? (The direct value of a struct field or map
    /// entry is not such a position: that case is finding F18, repaired.)
    pub fn has_empty_sequence_item(&self) -> bool {
        #[derive(Clone, Copy, PartialEq)]
        enum Ctx {
            Field,
            Item,
            Wrapped,
        }
        fn writes_nothing(d: &Dyn) -> bool {
            match d {
                Dyn::Seq(v) | Dyn::Tuple(v) | Dyn::TupleVariant(_, _, v) => v.iter().all(writes_nothing),
                Dyn::Some(v) | Dyn::Newtype(_, v) => writes_nothing(v),
                _ => false,
            }
        }
        fn walk(d: &Dyn, ctx: Ctx) -> bool {
            match d {
                Dyn::Seq(v) | Dyn::Tuple(v) => (ctx != Ctx::Field && v.iter().all(writes_nothing)) || v.iter().any(|x| walk(x, Ctx::Item)),
                Dyn::TupleVariant(_, _, v) => v.iter().all(writes_nothing) || v.iter().any(|x| walk(x, Ctx::Item)),
                Dyn::NewtypeVariant(_, _, x) => walk(x, Ctx::Wrapped),
                Dyn::Some(x) | Dyn::Newtype(_, x) => walk(x, ctx),
                Dyn::Map(v) => v.iter().any(|(_, x)| walk(x, Ctx::Field)),
                Dyn::Struct(_, v) | Dyn::StructVariant(_, _, v) => v.iter().any(|(_, x)| walk(x, Ctx::Field)),
                _ => false,
            }
        }
        walk(self, Ctx::Field)
    }
    /// does some struct or map of the value name the same attribute (`@key`) twice?
    pub fn repeats_attribute_key(&self) -> bool {
        fn dup<'k>(keys: impl Iterator<Item = &'k str>) -> bool {
            let mut seen: Vec<&str> = vec![];
            for k in keys.filter(|k| k.starts_with('@')) {
                if seen.contains(&k) {
                    return true;
                }
                seen.push(k);
            }
            false
        }
        match self {
            Dyn::Some(v) | Dyn::Newtype(_, v) | Dyn::NewtypeVariant(_, _, v) => v.repeats_attribute_key(),
            Dyn::Seq(v) | Dyn::Tuple(v) | Dyn::TupleVariant(_, _, v) => v.iter().any(|x| x.repeats_attribute_key()),
            Dyn::Map(v) => dup(v.iter().map(|(k, _)| k.as_str())) || v.iter().any(|(_, x)| x.repeats_attribute_key()),
            Dyn::Struct(_, v) | Dyn::StructVariant(_, _, v) => dup(v.iter().map(|(k, _)| fkey(*k))) || v.iter().any(|(_, x)| x.repeats_attribute_key()),
            _ => false,
        }
    }
    pub fn has_hostile_payload(&self) -> bool {
        let hostile = |s: &str| s.chars().any(|c| matches!(c, '<' | '&' | '\'' | '"' | '>')) || s.contains("]]>");
        match self {
            Dyn::Str(s) => hostile(s),
            Dyn::Char(c) => matches!(c, '<' | '&' | '\'' | '"' | '>'),
            Dyn::Some(v) | Dyn::Newtype(_, v) | Dyn::NewtypeVariant(_, _, v) => v.has_hostile_payload(),
            Dyn::Seq(v) | Dyn::Tuple(v) | Dyn::TupleVariant(_, _, v) => v.iter().any(|x| x.has_hostile_payload()),
            Dyn::Map(v) => v.iter().any(|(_, x)| x.has_hostile_payload()),
            Dyn::Struct(_, v) | Dyn::StructVariant(_, _, v) => v.iter().any(|(_, x)| x.has_hostile_payload()),
            _ => false,
        }
    }
}

pub fn hostile_string() -> impl Strategy<Value = String> {
    let piece = prop_oneof![
        8 => prop::sample::select(vec![
            "<", ">", "&", "'", "\"", "]]>", "--", "?>", "\u{0}", "\r", "\n", "\t", " ", "</root>", "</a>", "<x y='", "<x y=\"", "\"/><evil a=\"", "'/><evil a='", "<!--", "-->", "<![CDATA[", "<?pi", "&amp;", "&#60;", "&lt;", "x", "y", "1", "true",
            "\u{e9}", "\u{1F600}", "a b", "=", "/", "/>", "><", "\" b=\"", "' b='",
        ]).prop_map(|s| s.to_string()),
        1 => any::<char>().prop_map(|c| c.to_string()),
        1 => "[a-z]{1,5}",
    ];
    prop_oneof![1 => Just(String::new()), 8 => prop::collection::vec(piece, 1..6).prop_map(|v| v.concat())]
}

pub fn hostile_key() -> impl Strategy<Value = String> {
    prop_oneof![
        2 => prop::sample::select(FIELD_KEYS.to_vec()).prop_map(|s| s.to_string()),
        1 => hostile_string(),
        1 => hostile_string().prop_map(|s| format!("@{}", s)),
        4 => "[a-z][a-z0-9]{0,4}",
        2 => "@[a-z][a-z0-9]{0,4}",
    ]
}

pub fn dyn_strategy() -> BoxedStrategy<Dyn> {
    let leaf = prop_oneof![
        6 => hostile_string().prop_map(Dyn::Str),
        1 => prop_oneof![prop::sample::select(vec!['<', '>', '&', '\'', '"', ' ', '\n', '\u{0}', 'a']), any::<char>()].prop_map(Dyn::Char),
        1 => any::<bool>().prop_map(Dyn::Bool),
        1 => any::<i64>().prop_map(Dyn::I64),
        1 => any::<u64>().prop_map(Dyn::U64),
        1 => prop_oneof![Just(f64::NAN), Just(f64::INFINITY), any::<f64>()].prop_map(|f| Dyn::F64(f.to_bits())),
        1 => prop_oneof![9 => Just(Dyn::Unit), 1 => prop::collection::vec(any::<u8>(), 0..4).prop_map(Dyn::Bytes)],
        1 => Just(Dyn::Unit),
        1 => any::<u8>().prop_map(Dyn::UnitStruct),
        1 => Just(Dyn::None),
        2 => (0u8..5, prop_oneof![3 => 0u8..4, 1 => 0u8..(VARIANTS.len() as u8)]).prop_map(|(n, v)| Dyn::UnitVariant(n, v)),
    ];
    leaf.prop_recursive(4, 48, 5, |inner| {
        // three quarters of the names come from the legal prefix of each pool, so that most
        // values do serialize and the injection/skeleton oracles get to run
        let key = prop_oneof![3 => 0u8..14, 1 => 0u8..(FIELD_KEYS.len() as u8)];
        let sn = || prop_oneof![3 => 0u8..5, 1 => 0u8..(STRUCT_NAMES.len() as u8)];
        let vn = || prop_oneof![3 => 0u8..4, 1 => 0u8..(VARIANTS.len() as u8)];
        let fields = prop::collection::vec((key, inner.clone()), 0..5);
        prop_oneof![
            2 => inner.clone().prop_map(|v| Dyn::Some(Box::new(v))),
            1 => (sn(), inner.clone()).prop_map(|(n, v)| Dyn::Newtype(n, Box::new(v))),
            2 => prop::collection::vec(inner.clone(), 0..4).prop_map(Dyn::Seq),
            1 => prop::collection::vec(inner.clone(), 0..4).prop_map(Dyn::Tuple),
            3 => prop::collection::vec((hostile_key(), inner.clone()), 0..5).prop_map(Dyn::Map),
            4 => (sn(), fields.clone()).prop_map(|(n, f)| Dyn::Struct(n, f)),
            1 => (sn(), vn(), inner.clone()).prop_map(|(n, v, x)| Dyn::NewtypeVariant(n, v, Box::new(x))),
            1 => (sn(), vn(), prop::collection::vec(inner.clone(), 0..3)).prop_map(|(n, v, x)| Dyn::TupleVariant(n, v, x)),
            1 => (sn(), vn(), fields).prop_map(|(n, v, f)| Dyn::StructVariant(n, v, f)),
        ]
    })
    .boxed()
}
