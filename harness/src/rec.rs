//! Owned, normalised records of reader calls. Borrowed/owned differences of the library's
//! `Cow`s are invisible by construction.

use crate::engine::B;
use crate::sources::{block_on, ChunkedAsync, ChunkedBufRead};
use quick_xml::errors::{Error, IllFormedError, SyntaxError};
use quick_xml::events::Event;
use quick_xml::reader::{Config, Reader};
use serde::{Deserialize, Serialize};

#[derive(Debug, Clone, PartialEq, Eq, Hash, Serialize, Deserialize)]
pub enum Ev {
    Text(B),
    Start(B, usize),
    Empty(B, usize),
    End(B),
    Comment(B),
    CData(B),
    Decl(B),
    PI(B, usize),
    DocType(B),
    Eof,
    Syntax(String),
    MissingDoctypeName,
    Mismatch(String, String),
    Unmatched(String),
    DoubleHyphen,
    MissingEndTag(String),
    IllFormedOther(String),
    Io(String),
    Other(String),
}
impl Ev {
    pub fn is_err(&self) -> bool {
        matches!(
            self,
            Ev::Syntax(_) | Ev::MissingDoctypeName | Ev::Mismatch(..) | Ev::Unmatched(_) | Ev::DoubleHyphen | Ev::MissingEndTag(_) | Ev::IllFormedOther(_) | Ev::Io(_) | Ev::Other(_)
        )
    }
    pub fn is_fatal(&self) -> bool {
        matches!(self, Ev::Syntax(_) | Ev::Io(_) | Ev::Other(_))
    }
    pub fn is_markup(&self) -> bool {
        !matches!(self, Ev::Text(_) | Ev::Eof) && !self.is_err()
    }
}

pub fn syntax_name(s: &SyntaxError) -> &'static str {
    match s {
        SyntaxError::InvalidBangMarkup => "InvalidBangMarkup",
        SyntaxError::UnclosedPIOrXmlDecl => "UnclosedPIOrXmlDecl",
        SyntaxError::UnclosedComment => "UnclosedComment",
        SyntaxError::UnclosedDoctype => "UnclosedDoctype",
        SyntaxError::UnclosedCData => "UnclosedCData",
        SyntaxError::UnclosedTag => "UnclosedTag",
    }
}

/// the record of one result, without any cross-check
pub fn ev_raw(r: &Result<Event, Error>) -> Ev {
    match r {
        Ok(Event::Eof) => Ev::Eof,
        Ok(Event::Text(t)) => Ev::Text(B(t.to_vec())),
        Ok(Event::Start(s)) => Ev::Start(B(s.to_vec()), s.name().as_ref().len()),
        Ok(Event::Empty(s)) => Ev::Empty(B(s.to_vec()), s.name().as_ref().len()),
        Ok(Event::End(e)) => Ev::End(B(e.to_vec())),
        Ok(Event::Comment(c)) => Ev::Comment(B(c.to_vec())),
        Ok(Event::CData(c)) => Ev::CData(B(c.to_vec())),
        Ok(Event::Decl(d)) => Ev::Decl(B(d.to_vec())),
        Ok(Event::PI(p)) => Ev::PI(B(p.to_vec()), p.target().len()),
        Ok(Event::DocType(d)) => Ev::DocType(B(d.to_vec())),
        Err(Error::Syntax(s)) => Ev::Syntax(syntax_name(s).to_string()),
        Err(Error::IllFormed(IllFormedError::MissingDoctypeName)) => Ev::MissingDoctypeName,
        Err(Error::IllFormed(IllFormedError::MismatchedEndTag { expected, found })) => Ev::Mismatch(expected.clone(), found.clone()),
        Err(Error::IllFormed(IllFormedError::UnmatchedEndTag(n))) => Ev::Unmatched(n.clone()),
        Err(Error::IllFormed(IllFormedError::DoubleHyphenInComment)) => Ev::DoubleHyphen,
        Err(Error::IllFormed(IllFormedError::MissingEndTag(n))) => Ev::MissingEndTag(n.clone()),
        Err(Error::IllFormed(e)) => Ev::IllFormedOther(format!("{:?}", e)),
        Err(Error::Io(e)) => Ev::Io(format!("{:?}:{}", e.kind(), e)),
        Err(e) => Ev::Other(format!("{:?}", e)),
    }
}


/// Everything an event exposes must survive the ownership / copy conversions of its type:
/// `borrow`, `clone`, `into_owned`, `to_owned`, the `Deref` to bytes, the per-kind `into_inner`,
/// `BytesStart::to_end`, and the name parts must partition the name. `None` = consistent.
pub fn conversion_defect(e: &Event) -> Option<String> {
    fn raw<'a>(e: Event<'a>) -> Ev {
        ev_raw(&Ok(e))
    }
    let base = raw(e.borrow());
    macro_rules! same {
        ($what:expr, $ev:expr) => {{
            let other = $ev;
            if other != base {
                return Some(format!("{} changed the event: {:?} became {:?}", $what, base, other));
            }
        }};
    }
    same!("Event::clone", raw(e.clone()));
    same!("Event::into_owned", raw(e.clone().into_owned()));
    same!("Event::borrow of the owned copy", raw(e.clone().into_owned().borrow()));
    same!("Event::as_ref", raw(AsRef::<Event>::as_ref(e).borrow()));
    let bytes: &[u8] = e;
    match e {
        Event::Start(s) | Event::Empty(s) => {
            let wrap = |b: quick_xml::events::BytesStart<'static>| if matches!(e, Event::Start(_)) { Event::Start(b) } else { Event::Empty(b) };
            same!("BytesStart::to_owned", raw(wrap(s.to_owned())));
            same!("BytesStart::into_owned", raw(wrap(s.clone().into_owned())));
            same!("BytesStart::borrow + into_owned", raw(wrap(s.borrow().into_owned())));
            if bytes != &s[..] {
                return Some(format!("Deref of the event and of its BytesStart differ: {:?} vs {:?}", B::show(bytes), B::show(&s[..])));
            }
            let n = s.name().as_ref().len();
            if s.attributes_raw() != &s[n..] {
                return Some(format!("attributes_raw is not the content after the name: {:?} of {:?}", B::show(s.attributes_raw()), B::show(&s[..])));
            }
            if s.to_end().name().as_ref() != s.name().as_ref() || &s.to_end()[..] != s.name().as_ref() {
                return Some(format!("to_end() of {:?} names {:?}", B::show(&s[..]), B::show(&s.to_end()[..])));
            }
            if s.to_owned().to_end().into_owned().name().as_ref() != s.name().as_ref() {
                return Some(format!("to_end() of the owned copy of {:?} has another name", B::show(&s[..])));
            }
            if let Ok(text) = std::str::from_utf8(&s[..]) {
                same!("BytesStart::from_content(content, name_len)", raw(wrap(quick_xml::events::BytesStart::from_content(text.to_string(), n))));
            }
            let name = s.name();
            let (local, prefix) = name.decompose();
            let ok = match prefix {
                Some(p) => [p.as_ref(), b":", local.as_ref()].concat() == name.as_ref(),
                None => local.as_ref() == name.as_ref(),
            };
            if !ok || s.local_name().as_ref() != local.as_ref() || name.prefix().map(|p| p.as_ref().to_vec()) != prefix.map(|p| p.as_ref().to_vec()) {
                return Some(format!("prefix / local name do not partition the name {:?}", B::show(name.as_ref())));
            }
        }
        Event::End(x) => {
            same!("BytesEnd::into_owned", raw(Event::End(x.clone().into_owned())));
            same!("BytesEnd::borrow + into_owned", raw(Event::End(x.borrow().into_owned())));
            if x.name().as_ref() != bytes {
                return Some(format!("BytesEnd::name {:?} is not its content {:?}", B::show(x.name().as_ref()), B::show(bytes)));
            }
            let (local, prefix) = x.name().decompose();
            let ok = match prefix {
                Some(p) => [p.as_ref(), b":", local.as_ref()].concat() == bytes,
                None => local.as_ref() == bytes,
            };
            if !ok || x.local_name().as_ref() != local.as_ref() {
                return Some(format!("prefix / local name do not partition the end name {:?}", B::show(bytes)));
            }
        }
        Event::Text(t) | Event::Comment(t) | Event::DocType(t) => {
            let wrap = |b: quick_xml::events::BytesText<'static>| match e {
                Event::Text(_) => Event::Text(b),
                Event::Comment(_) => Event::Comment(b),
                _ => Event::DocType(b),
            };
            // the decoder travels with the event: unescaping gives the same whichever copy is asked
            let un = |x: &quick_xml::events::BytesText| x.unescape().map(|c| c.into_owned()).map_err(|e| e.to_string());
            let base_un = un(t);
            if un(&t.borrow()) != base_un || un(&t.clone()) != base_un || un(&t.clone().into_owned()) != base_un || un(&t.borrow().into_owned()) != base_un {
                return Some(format!("unescape() of a borrowed / cloned / owned copy of {:?} differs from unescape() of the event: {:?} / {:?} / {:?} vs {:?}", B::show(bytes), un(&t.borrow()), un(&t.clone()), un(&t.clone().into_owned()), base_un));
            }
            same!("BytesText::into_owned", raw(wrap(t.clone().into_owned())));
            same!("BytesText::borrow + into_owned", raw(wrap(t.borrow().into_owned())));
            if &t.clone().into_inner()[..] != bytes || &t.clone().into_owned().into_inner()[..] != bytes {
                return Some(format!("BytesText::into_inner differs from the content {:?}", B::show(bytes)));
            }
            if let Ok(text) = std::str::from_utf8(bytes) {
                same!("BytesText::from_escaped(content)", raw(wrap(quick_xml::events::BytesText::from_escaped(text.to_string()))));
            }
        }
        Event::CData(c) => {
            let esc = |x: quick_xml::events::BytesCData| x.escape().map_err(|e| e.to_string()).and_then(|t| t.unescape().map(|c| c.into_owned()).map_err(|e| e.to_string()));
            let base_esc = esc(c.clone());
            if esc(c.borrow()) != base_esc || esc(c.clone().into_owned()) != base_esc {
                return Some(format!("escape() + unescape() of a borrowed / owned copy of the section {:?} differs from that of the event", B::show(bytes)));
            }
            same!("BytesCData::into_owned", raw(Event::CData(c.clone().into_owned())));
            same!("BytesCData::borrow + into_owned", raw(Event::CData(c.borrow().into_owned())));
            if &c.clone().into_inner()[..] != bytes {
                return Some(format!("BytesCData::into_inner differs from the content {:?}", B::show(bytes)));
            }
            if let Ok(text) = std::str::from_utf8(bytes) {
                same!("BytesCData::new(content)", raw(Event::CData(quick_xml::events::BytesCData::new(text.to_string()))));
            }
        }
        Event::PI(p) => {
            same!("BytesPI::into_owned", raw(Event::PI(p.clone().into_owned())));
            same!("BytesPI::borrow + into_owned", raw(Event::PI(p.borrow().into_owned())));
            if &p.clone().into_inner()[..] != bytes {
                return Some(format!("BytesPI::into_inner differs from the content {:?}", B::show(bytes)));
            }
            if !bytes.starts_with(p.target()) || !bytes.ends_with(p.content()) || p.target().len() + p.content().len() > bytes.len() {
                return Some(format!("target {:?} / content {:?} are not a prefix / suffix of {:?}", B::show(p.target()), B::show(p.content()), B::show(bytes)));
            }
            if let Ok(text) = std::str::from_utf8(bytes) {
                same!("BytesPI::new(content)", raw(Event::PI(quick_xml::events::BytesPI::new(text.to_string()))));
            }
        }
        Event::Decl(d) => {
            same!("BytesDecl::into_owned", raw(Event::Decl(d.clone().into_owned())));
            same!("BytesDecl::borrow + into_owned", raw(Event::Decl(d.borrow().into_owned())));
            if let Ok(text) = std::str::from_utf8(bytes) {
                same!("BytesDecl::from_start(from_content(content, 3))", raw(Event::Decl(quick_xml::events::BytesDecl::from_start(quick_xml::events::BytesStart::from_content(text.to_string(), 3)))));
            }
            let show = |r: Option<Result<std::borrow::Cow<[u8]>, quick_xml::events::attributes::AttrError>>| r.map(|x| x.map(|c| c.into_owned()));
            let o = d.clone().into_owned();
            if show(d.encoding()) != show(o.encoding()) || show(d.standalone()) != show(o.standalone()) || d.version().ok().map(|c| c.into_owned()) != o.version().ok().map(|c| c.into_owned()) {
                return Some(format!("the fields of the declaration {:?} change with into_owned", B::show(bytes)));
            }
        }
        Event::Eof => {}
    }
    None
}

pub fn ev_of(r: &Result<Event, Error>) -> Ev {
    if let Ok(e) = r {
        if let Some(d) = conversion_defect(e) {
            return Ev::Other(format!("CONVERSION: {}", d));
        }
    }
    ev_raw(r)
}

#[derive(Debug, Clone, PartialEq, Eq, Hash, Serialize, Deserialize)]
pub struct Rec {
    pub ev: Ev,
    pub pos: u64,
    pub err_pos: u64,
}

// configuration bits
pub const ALLOW_UNMATCHED: u8 = 1;
pub const CHECK_COMMENTS: u8 = 2;
pub const CHECK_END_NAMES: u8 = 4;
pub const EXPAND_EMPTY: u8 = 8;
pub const TRIM_NAMES: u8 = 16;
pub const TRIM_START: u8 = 32;
pub const TRIM_END: u8 = 64;
/// neutral: nothing is dropped, nothing checked
pub const NEUTRAL: u8 = ALLOW_UNMATCHED;

pub fn apply_cfg(c: &mut Config, bits: u8) {
    c.allow_unmatched_ends = bits & ALLOW_UNMATCHED != 0;
    c.expand_empty_elements = bits & EXPAND_EMPTY != 0;
    c.trim_markup_names_in_closing_tags = bits & TRIM_NAMES != 0;
    // where a pair of switches gets the same value, the documented helper that sets both is used
    let (cc, ce) = (bits & CHECK_COMMENTS != 0, bits & CHECK_END_NAMES != 0);
    if cc == ce {
        c.enable_all_checks(cc);
    } else {
        c.check_comments = cc;
        c.check_end_names = ce;
    }
    let (ts, te) = (bits & TRIM_START != 0, bits & TRIM_END != 0);
    if ts == te {
        c.trim_text(ts);
    } else {
        c.trim_text_start = ts;
        c.trim_text_end = te;
    }
}

pub fn cfg_bits(c: &Config) -> u8 {
    (c.allow_unmatched_ends as u8) * ALLOW_UNMATCHED
        | (c.check_comments as u8) * CHECK_COMMENTS
        | (c.check_end_names as u8) * CHECK_END_NAMES
        | (c.expand_empty_elements as u8) * EXPAND_EMPTY
        | (c.trim_markup_names_in_closing_tags as u8) * TRIM_NAMES
        | (c.trim_text_start as u8) * TRIM_START
        | (c.trim_text_end as u8) * TRIM_END
}

pub fn cfg_show(bits: u8) -> String {
    let names = ["allow_unmatched_ends", "check_comments", "check_end_names", "expand_empty_elements", "trim_markup_names_in_closing_tags", "trim_text_start", "trim_text_end"];
    let v: Vec<&str> = (0..7).filter(|i| bits >> i & 1 == 1).map(|i| names[i]).collect();
    v.join("+")
}

/// Upper bound on read calls for an input of this length (every call but text/Eof consumes at
/// least two bytes; expansion at most doubles the events; +slack).
pub fn call_bound(len: usize) -> usize {
    2 * len + 4
}

/// How many extra calls to make after the stream ended (Eof or fatal error), to observe that
/// the end is final.
pub const EXTRA_CALLS: usize = 2;

/// Read with the borrowing reader until Eof/fatal error (+EXTRA_CALLS), or the call bound.
pub fn read_slice(data: &[u8], bits: u8) -> Vec<Rec> {
    let mut r = Reader::from_reader(data);
    apply_cfg(r.config_mut(), bits);
    let mut out = vec![];
    let mut extra = 0;
    for _ in 0..call_bound(data.len()) + EXTRA_CALLS {
        let e = r.read_event();
        let ev = ev_of(&e);
        drop(e);
        let done = matches!(ev, Ev::Eof) || ev.is_fatal();
        out.push(Rec { ev, pos: r.buffer_position(), err_pos: r.error_position() });
        if done || extra > 0 {
            extra += 1;
            if extra > EXTRA_CALLS {
                break;
            }
        }
    }
    out
}


/// Like `read_slice`, but after `k` calls the reader is cloned; returns the records of the run
/// that continues on the CLONE and of the run that continues on the original afterwards. A copy
/// of a reader is a reader in the same state: both must equal the uninterrupted run.
pub fn read_slice_handover(data: &[u8], bits: u8, k: usize) -> (Vec<Rec>, Vec<Rec>) {
    fn finish<'a>(r: &mut Reader<&'a [u8]>, out: &mut Vec<Rec>, budget: usize) {
        let mut extra = 0;
        // the run may already be past its end
        if let Some(last) = out.last() {
            if matches!(last.ev, Ev::Eof) || last.ev.is_fatal() {
                extra = 1;
                let mut j = out.len() - 1;
                while j > 0 && (matches!(out[j - 1].ev, Ev::Eof) || out[j - 1].ev.is_fatal()) {
                    j -= 1;
                    extra += 1;
                }
                if extra > EXTRA_CALLS {
                    return;
                }
            }
        }
        while out.len() < budget {
            let e = r.read_event();
            let ev = ev_of(&e);
            drop(e);
            let done = matches!(ev, Ev::Eof) || ev.is_fatal();
            out.push(Rec { ev, pos: r.buffer_position(), err_pos: r.error_position() });
            if done || extra > 0 {
                extra += 1;
                if extra > EXTRA_CALLS {
                    break;
                }
            }
        }
    }
    let budget = call_bound(data.len()) + EXTRA_CALLS;
    let mut r = Reader::from_reader(data);
    apply_cfg(r.config_mut(), bits);
    let mut head = vec![];
    for _ in 0..k.min(budget) {
        let e = r.read_event();
        let ev = ev_of(&e);
        drop(e);
        let stop = ev.is_fatal() || matches!(ev, Ev::Eof);
        head.push(Rec { ev, pos: r.buffer_position(), err_pos: r.error_position() });
        if stop {
            break;
        }
    }
    let mut r2 = r.clone();
    let mut on_clone = head.clone();
    finish(&mut r2, &mut on_clone, budget);
    let mut on_original = head;
    finish(&mut r, &mut on_original, budget);
    (on_clone, on_original)
}

/// Read through `read_event_into` over a chunked `BufRead`. `clear` = clear the event buffer
/// between calls (the usual idiom) or let it grow.
pub fn read_buffered(data: &[u8], bits: u8, cuts: &[usize], clear: bool) -> Vec<Rec> {
    let src = ChunkedBufRead::new(data, cuts.to_vec());
    read_buffered_src(src, data.len(), bits, clear)
}

/// content of a caller buffer that is not empty at the first call
pub const PREFILL: &[u8] = b"]]>-->?><x y='";

pub fn read_buffered_src<R: std::io::BufRead>(src: R, len: usize, bits: u8, clear: bool) -> Vec<Rec> {
    let mut r = Reader::from_reader(src);
    apply_cfg(r.config_mut(), bits);
    let mut out = vec![];
    // when the buffer is never cleared it also starts out non-empty: events must be cut from what
    // THIS call appended, whatever is in front of it
    let mut buf = if clear { Vec::new() } else { PREFILL.to_vec() };
    let mut extra = 0;
    for _ in 0..call_bound(len) + EXTRA_CALLS {
        if clear {
            buf.clear();
        }
        let e = r.read_event_into(&mut buf);
        let ev = ev_of(&e);
        drop(e);
        let done = matches!(ev, Ev::Eof) || ev.is_fatal();
        out.push(Rec { ev, pos: r.buffer_position(), err_pos: r.error_position() });
        if done || extra > 0 {
            extra += 1;
            if extra > EXTRA_CALLS {
                break;
            }
        }
    }
    out
}

pub fn read_async(data: &[u8], bits: u8, cuts: &[usize], pend: &[u8], clear: bool) -> Vec<Rec> {
    let src = ChunkedAsync::new(data, cuts.to_vec(), pend.to_vec());
    read_async_src(src, data.len(), bits, clear)
}

pub fn read_async_src<R: tokio::io::AsyncBufRead + Unpin>(src: R, len: usize, bits: u8, clear: bool) -> Vec<Rec> {
    let mut r = Reader::from_reader(src);
    apply_cfg(r.config_mut(), bits);
    let mut out = vec![];
    let mut buf = if clear { Vec::new() } else { PREFILL.to_vec() };
    let mut extra = 0;
    for _ in 0..call_bound(len) + EXTRA_CALLS {
        if clear {
            buf.clear();
        }
        let ev = {
            let e = block_on(r.read_event_into_async(&mut buf));
            ev_of(&e)
        };
        let done = matches!(ev, Ev::Eof) || ev.is_fatal();
        out.push(Rec { ev, pos: r.buffer_position(), err_pos: r.error_position() });
        if done || extra > 0 {
            extra += 1;
            if extra > EXTRA_CALLS {
                break;
            }
        }
    }
    out
}

pub fn show_recs(rs: &[Rec]) -> String {
    let mut s = String::new();
    for r in rs {
        s.push_str(&format!("{:?}@{}/{} ", r.ev, r.pos, r.err_pos));
    }
    s
}

/// first index at which two record lists differ, with a printable explanation
pub fn first_diff(a: &[Rec], b: &[Rec]) -> Option<String> {
    let n = a.len().max(b.len());
    for i in 0..n {
        match (a.get(i), b.get(i)) {
            (Some(x), Some(y)) if x == y => {}
            (x, y) => return Some(format!("record {}: {:?} vs {:?}", i, x, y)),
        }
    }
    None
}
