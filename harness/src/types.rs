//! The serde type family (C06, C07, C13–C15, C19, C20): derive(Serialize, Deserialize) types
//! covering every row of the documented mapping, hand-written proptest strategies, and a
//! tagged union `Val` so that cases are serialisable for replay.

use proptest::prelude::*;
use quick_xml::se::{QuoteLevel, Serializer};
use quick_xml::DeError;
use quick_xml::SeError;
use serde::de::DeserializeOwned;
use serde::{Deserialize, Serialize};
use std::collections::BTreeMap;

// ---------------------------------------------------------------------------------------------
// the family

#[derive(Serialize, Deserialize, PartialEq, Debug, Clone)]
pub enum Color {
    Red,
    Green,
    #[serde(rename = "dark-blue")]
    DarkBlue,
}

/// attributes only
#[derive(Serialize, Deserialize, PartialEq, Debug, Clone)]
pub struct Attrs {
    #[serde(rename = "@a")]
    pub a: String,
    #[serde(rename = "@b")]
    pub b: u8,
    #[serde(rename = "@c")]
    pub c: bool,
    #[serde(rename = "@d", skip_serializing_if = "Option::is_none", default)]
    pub d: Option<String>,
    #[serde(rename = "@e")]
    pub e: f32,
    #[serde(rename = "@color")]
    pub color: Color,
    #[serde(rename = "@ch")]
    pub ch: char,
}

/// child elements only
#[derive(Serialize, Deserialize, PartialEq, Debug, Clone)]
pub struct Elems {
    pub a: String,
    pub b: i32,
    pub c: bool,
    #[serde(skip_serializing_if = "Option::is_none", default)]
    pub d: Option<String>,
    pub e: Color,
    pub f: char,
    pub g: u64,
    #[serde(skip_serializing_if = "Option::is_none", default)]
    pub h: Option<i8>,
}

/// attribute + text content
#[derive(Serialize, Deserialize, PartialEq, Debug, Clone)]
pub struct TextOnly {
    #[serde(rename = "@k")]
    pub k: String,
    #[serde(rename = "$text", default)]
    pub text: String,
}

/// unit variant / number / bool / char in `$text`
#[derive(Serialize, Deserialize, PartialEq, Debug, Clone)]
pub struct TextEnum {
    #[serde(rename = "$text")]
    pub text: Color,
}
#[derive(Serialize, Deserialize, PartialEq, Debug, Clone)]
pub struct TextNum {
    #[serde(rename = "@unit")]
    pub unit: String,
    #[serde(rename = "$text")]
    pub text: f64,
}

#[derive(Serialize, Deserialize, PartialEq, Debug, Clone)]
pub struct Inner {
    #[serde(rename = "@a")]
    pub a: String,
    pub v: String,
}

/// element lists
#[derive(Serialize, Deserialize, PartialEq, Debug, Clone)]
pub struct ListElems {
    #[serde(default)]
    pub item: Vec<Inner>,
    #[serde(default)]
    pub n: Vec<i16>,
    #[serde(default)]
    pub s: Vec<String>,
    // NOTE: no `Vec<UnitEnum>` in a normal field: list items that are enums are documented to
    // be deserialized from the full element (the element name selects the variant), whereas a
    // normal field serializes a unit variant as `<field>Variant</field>` — not a mapping row.
}

/// xs:list in an attribute and in the text content
#[derive(Serialize, Deserialize, PartialEq, Debug, Clone)]
pub struct XsLists {
    #[serde(rename = "@nums", default)]
    pub nums: Vec<u32>,
    #[serde(rename = "@words", default)]
    pub words: Vec<String>,
    #[serde(rename = "$text", default)]
    pub text: Vec<String>,
}

#[derive(Serialize, Deserialize, PartialEq, Debug, Clone)]
pub enum Choice {
    Unit,
    Newtype(String),
    Num(i32),
    Struct {
        #[serde(rename = "@y")]
        y: String,
        x: i32,
    },
    Nested(Inner),
    #[serde(rename = "$text")]
    Text(String),
}

/// one choice plus an attribute
#[derive(Serialize, Deserialize, PartialEq, Debug, Clone)]
pub struct ChoiceHolder {
    #[serde(rename = "@k")]
    pub k: u8,
    #[serde(rename = "$value")]
    pub choice: Choice,
}

/// mixed list of element and text choices (never two adjacent text items, no empty text)
#[derive(Serialize, Deserialize, PartialEq, Debug, Clone)]
pub struct MixedList {
    #[serde(rename = "@k")]
    pub k: String,
    #[serde(rename = "$value", default)]
    pub items: Vec<Choice>,
}

/// `$value` list whose text choice is a TUPLE variant (written and read as an xs:list); never two
/// adjacent text items
#[derive(Serialize, Deserialize, PartialEq, Debug, Clone)]
pub enum TChoice {
    E(u8),
    S {
        #[serde(rename = "@y")]
        y: String,
    },
    #[serde(rename = "$text")]
    T(u16, i8),
    /// a struct-like choice whose own content is text (`some <B>bold</B> text`)
    B {
        #[serde(rename = "$text", default)]
        t: String,
    },
}
#[derive(Serialize, Deserialize, PartialEq, Debug, Clone)]
pub struct MixedTuples {
    #[serde(rename = "@k")]
    pub k: u8,
    #[serde(rename = "$value", default)]
    pub items: Vec<TChoice>,
}

#[derive(Serialize, Deserialize, PartialEq, Debug, Clone)]
pub enum Tag {
    A,
    B,
    #[serde(rename = "c-c")]
    C,
}

/// list of unit choices in `$value`
#[derive(Serialize, Deserialize, PartialEq, Debug, Clone)]
pub struct TagList {
    #[serde(rename = "$value", default)]
    pub tags: Vec<Tag>,
}

/// nested structs, optional nested struct, list of nested structs
#[derive(Serialize, Deserialize, PartialEq, Debug, Clone)]
pub struct Nested {
    #[serde(rename = "@id")]
    pub id: u8,
    pub inner: Inner,
    #[serde(skip_serializing_if = "Option::is_none", default)]
    pub opt: Option<Inner>,
    #[serde(default)]
    pub list: Vec<Inner>,
    pub tail: String,
}

/// map with name-like keys
#[derive(Serialize, Deserialize, PartialEq, Debug, Clone)]
pub struct MapHolder {
    #[serde(rename = "@id")]
    pub id: u8,
    pub m: BTreeMap<String, String>,
}

#[derive(Serialize, Deserialize, PartialEq, Debug, Clone)]
pub struct NewtypeInner(pub Inner);

#[derive(Serialize, Deserialize, PartialEq, Debug, Clone)]
pub struct UnitS;

/// tuples, newtypes, units in fields
#[derive(Serialize, Deserialize, PartialEq, Debug, Clone)]
pub struct Misc {
    pub t: (u8, String),
    pub nt: NewtypeInner,
    pub np: NewtypePrim,
    pub u: (),
    pub us: UnitS,
    #[serde(rename = "@ua")]
    pub ua: (),
    pub after: bool,
}
#[derive(Serialize, Deserialize, PartialEq, Debug, Clone)]
pub struct NewtypePrim(pub u16);

/// top-level enum
#[derive(Serialize, Deserialize, PartialEq, Debug, Clone)]
pub enum TopEnum {
    A,
    B(u32),
    S(String),
    C {
        #[serde(rename = "@y")]
        y: bool,
        x: String,
    },
    N(Inner),
}

/// numeric extremes as elements and attributes
#[derive(Serialize, Deserialize, PartialEq, Debug, Clone)]
pub struct Nums {
    #[serde(rename = "@ai8")]
    pub ai8: i8,
    #[serde(rename = "@au64")]
    pub au64: u64,
    #[serde(rename = "@af64")]
    pub af64: f64,
    pub i8_: i8,
    pub i16_: i16,
    pub i32_: i32,
    pub i64_: i64,
    pub u8_: u8,
    pub u16_: u16,
    pub u32_: u32,
    pub u64_: u64,
    pub f32_: f32,
    pub f64_: f64,
}

/// recursive tree
#[derive(Serialize, Deserialize, PartialEq, Debug, Clone)]
pub struct Tree {
    #[serde(rename = "@v")]
    pub v: u8,
    #[serde(default)]
    pub child: Vec<Tree>,
}

/// text content holding a bool / a char
#[derive(Serialize, Deserialize, PartialEq, Debug, Clone)]
pub struct TextBool {
    #[serde(rename = "$text")]
    pub text: bool,
}

/// `$value` holding a single string
#[derive(Serialize, Deserialize, PartialEq, Debug, Clone)]
pub struct ValueString {
    #[serde(rename = "@k")]
    pub k: u8,
    #[serde(rename = "$value", default)]
    pub v: String,
}

/// list of structs that themselves have struct-typed fields (many nested-struct fields in one
/// document without deep nesting)
#[derive(Serialize, Deserialize, PartialEq, Debug, Clone)]
pub struct Row {
    #[serde(rename = "@id")]
    pub id: u8,
    pub cell: Inner,
    #[serde(skip_serializing_if = "Option::is_none", default)]
    pub opt: Option<Inner>,
}
#[derive(Serialize, Deserialize, PartialEq, Debug, Clone)]
pub struct Rows {
    #[serde(default)]
    pub row: Vec<Row>,
    pub last: Inner,
}

// ---------------------------------------------------------------------------------------------
// tagged union

macro_rules! family {
    ($( $variant:ident($ty:ty) ),* $(,)?) => {
        #[derive(Serialize, Deserialize, PartialEq, Debug, Clone)]
        pub enum Val {
            $( $variant($ty), )*
        }
        #[derive(Serialize, Deserialize, PartialEq, Eq, Debug, Clone, Copy, Hash)]
        pub enum Ty {
            $( $variant, )*
        }
        pub const ALL_TYPES: &[Ty] = &[ $( Ty::$variant, )* ];
        impl Val {
            pub fn ty(&self) -> Ty {
                match self { $( Val::$variant(_) => Ty::$variant, )* }
            }
            pub fn serialize_with(&self, o: &SerOpts) -> Result<String, SeError> {
                match self { $( Val::$variant(v) => ser(v, o), )* }
            }
            /// serialize through one of the convenience entry points of `quick_xml::se` (default options)
            pub fn serialize_entry(&self, entry: u8, root: Option<&str>) -> Result<String, String> {
                match self { $( Val::$variant(v) => ser_entry(v, entry, root), )* }
            }
            /// hand the concrete value to `f` (used to serialize it into other kinds of sinks)
            pub fn serialize_io(&self, f: &mut dyn FnMut(&dyn crate::props::c13::erased::Ser) -> Result<(), String>) -> Result<(), String> {
                match self { $( Val::$variant(v) => f(v), )* }
            }
        }
        impl Ty {
            pub fn from_str(self, xml: &str) -> Result<Val, DeError> {
                match self { $( Ty::$variant => quick_xml::de::from_str::<$ty>(xml).map(Val::$variant), )* }
            }
            pub fn from_reader<R: std::io::BufRead>(self, r: R) -> Result<Val, DeError> {
                match self { $( Ty::$variant => quick_xml::de::from_reader::<R, $ty>(r).map(Val::$variant), )* }
            }
            /// the constructors that take an entity resolver, with the default resolver
            pub fn from_str_with_resolver(self, xml: &str) -> Result<Val, DeError> {
                match self { $( Ty::$variant => {
                    let mut de = quick_xml::de::Deserializer::from_str_with_resolver(xml, quick_xml::de::PredefinedEntityResolver);
                    <$ty as serde::Deserialize>::deserialize(&mut de).map(Val::$variant)
                } )* }
            }
            pub fn from_reader_with_resolver<R: std::io::BufRead>(self, r: R) -> Result<Val, DeError> {
                match self { $( Ty::$variant => {
                    let mut de = quick_xml::de::Deserializer::with_resolver(r, quick_xml::de::PredefinedEntityResolver);
                    <$ty as serde::Deserialize>::deserialize(&mut de).map(Val::$variant)
                } )* }
            }
            pub fn name(self) -> &'static str {
                match self { $( Ty::$variant => stringify!($variant), )* }
            }
        }
    };
}

family! {
    Attrs(Attrs),
    Elems(Elems),
    TextOnly(TextOnly),
    TextEnum(TextEnum),
    TextNum(TextNum),
    ListElems(ListElems),
    XsLists(XsLists),
    ChoiceHolder(ChoiceHolder),
    MixedList(MixedList),
    TagList(TagList),
    Nested(Nested),
    MapHolder(MapHolder),
    Misc(Misc),
    TopEnum(TopEnum),
    Nums(Nums),
    Tree(Tree),
    TextBool(TextBool),
    ValueString(ValueString),
    Rows(Rows),
    MixedTuples(MixedTuples),
}

// ---------------------------------------------------------------------------------------------
// serializer options

#[derive(Serialize, Deserialize, PartialEq, Debug, Clone)]
pub struct SerOpts {
    /// 0 full, 1 partial, 2 minimal
    pub level: u8,
    pub indent: Option<(char, u8)>,
    pub expand_empty: bool,
    pub root: Option<String>,
}

impl SerOpts {
    pub fn plain() -> Self {
        SerOpts { level: 1, indent: None, expand_empty: false, root: None }
    }
}

pub fn ser<T: Serialize>(v: &T, o: &SerOpts) -> Result<String, SeError> {
    let mut out = String::new();
    let mut s = match &o.root {
        Some(r) => Serializer::with_root(&mut out, Some(r.as_str()))?,
        None => Serializer::new(&mut out),
    };
    s.set_quote_level(match o.level {
        0 => QuoteLevel::Full,
        1 => QuoteLevel::Partial,
        _ => QuoteLevel::Minimal,
    });
    if let Some((c, n)) = o.indent {
        s.indent(c, n as usize);
    }
    s.expand_empty_elements(o.expand_empty);
    v.serialize(s)?;
    Ok(out)
}

/// the convenience entry points: 0 to_string[_with_root], 1 to_writer[_with_root] into a String,
/// 2 to_utf8_io_writer into a Vec<u8> (no root variant exists: falls back to 0 when a root is given)
pub fn ser_entry<T: Serialize>(v: &T, entry: u8, root: Option<&str>) -> Result<String, String> {
    match (entry % 3, root) {
        (0, None) => quick_xml::se::to_string(v).map_err(|e| e.to_string()),
        (0, Some(r)) | (2, Some(r)) => quick_xml::se::to_string_with_root(r, v).map_err(|e| e.to_string()),
        (1, None) => {
            let mut out = String::new();
            quick_xml::se::to_writer(&mut out, v).map_err(|e| e.to_string())?;
            Ok(out)
        }
        (1, Some(r)) => {
            let mut out = String::new();
            quick_xml::se::to_writer_with_root(&mut out, r, v).map_err(|e| e.to_string())?;
            Ok(out)
        }
        _ => {
            let mut out: Vec<u8> = Vec::new();
            quick_xml::se::to_utf8_io_writer(&mut out, v).map_err(|e| e.to_string())?;
            String::from_utf8(out).map_err(|e| format!("to_utf8_io_writer wrote bytes that are not UTF-8: {}", e))
        }
    }
}

pub fn de<T: DeserializeOwned>(xml: &str) -> Result<T, DeError> {
    quick_xml::de::from_str(xml)
}

pub fn opts_strategy() -> impl Strategy<Value = SerOpts> {
    (0u8..3, prop::option::of((prop::sample::select(vec![' ', '\t']), 0u8..5)), any::<bool>(), prop::option::weighted(0.3, prop::sample::select(vec!["root", "r", "x-y", "n:s", "\u{e9}"]))).prop_map(|(level, indent, expand_empty, root)| SerOpts { level, indent, expand_empty, root: root.map(|s| s.to_string()) })
}

// ---------------------------------------------------------------------------------------------
// string strategies

pub fn is_xml_ws(c: char) -> bool {
    matches!(c, ' ' | '\t' | '\r' | '\n')
}

/// any characters: favours markup characters, entity look-alikes, all four blanks, non-ASCII
pub fn any_string() -> impl Strategy<Value = String> {
    let piece = prop_oneof![
        8 => prop::sample::select(vec![
            "<", ">", "&", "'", "\"", "]]>", "]]", "--", "?>", "<!--", "<![CDATA[", "</a>", "<a>", "<a/>", "&amp;", "&lt;", "&#32;", "&#x41;", "&unknown;", "&", ";",
            " ", "\t", "\n", "\r", "  ", "a b", "\u{c}", "\u{b}", "\u{3000}", "\u{1680}", "\u{2003}", "\u{feff}", "x", "y", "text", "0", "-1", "true", "1e5", "\u{e9}", "\u{20ac}", "\u{1F600}", "\u{a0}", "\u{2028}", "\u{85}", "=", "/",
        ]).prop_map(|s| s.to_string()),
        1 => any::<char>().prop_map(|c| c.to_string()),
        1 => "[a-zA-Z0-9_.-]{1,8}",
    ];
    prop_oneof![
        4 => Just(String::new()),
        32 => prop::collection::vec(piece.clone(), 1..7).prop_map(|v| v.concat()),
        // long payloads: past the block sizes of the scanners and the initial buffer capacities
        1 => (prop::collection::vec(piece, 1..4), prop::sample::select(vec![16usize, 17, 31, 33, 64, 65, 100, 129, 300])).prop_map(|(v, n)| {
            let unit = v.concat();
            let mut out = String::new();
            while out.chars().count() < n {
                out.push_str(if unit.is_empty() { "x" } else { &unit });
            }
            out
        }),
    ]
}

/// element / text strings: no leading or trailing XML whitespace (documented trimming)
pub fn elem_string() -> impl Strategy<Value = String> {
    any_string().prop_map(|s| s.trim_matches(is_xml_ws).to_string())
}

/// xs:list items: non-empty, free of XML whitespace
pub fn list_item() -> impl Strategy<Value = String> {
    any_string().prop_map(|s| {
        let t: String = s.chars().filter(|c| !is_xml_ws(*c)).collect();
        if t.is_empty() {
            "x".to_string()
        } else {
            t
        }
    })
}

/// map keys: XML names without a prefix (the deserializer documents that it keeps only the
/// local part of element names)
pub fn key_name() -> impl Strategy<Value = String> {
    prop::sample::select(vec!["a", "b", "key", "k1", "x-y", "x.y", "_u", "ns", "\u{e9}", "\u{4e2d}", "Z9", "a-b-c"]).prop_map(|s| s.to_string())
}

pub fn elem_char() -> impl Strategy<Value = char> {
    prop_oneof![3 => prop::sample::select(vec!['<', '>', '&', '\'', '"', 'a', 'Z', '0', '\u{e9}', '\u{20ac}', '\u{1F600}', ']', '-', ';']), 1 => any::<char>()].prop_filter("not XML whitespace (trimmed)", |c| !is_xml_ws(*c))
}

pub fn color() -> impl Strategy<Value = Color> {
    prop::sample::select(vec![Color::Red, Color::Green, Color::DarkBlue])
}

fn f64s() -> impl Strategy<Value = f64> {
    prop_oneof![
        3 => prop::sample::select(vec![0.0, -0.0, 1.0, -1.5, 1e300, -1e-300, f64::MAX, f64::MIN, f64::MIN_POSITIVE, f64::EPSILON, 0.1, 1e21, 123456789.125]),
        2 => any::<f64>().prop_filter("finite (NaN is not equal to itself; infinities cannot be stored in the JSON replay files)", |f| f.is_finite()),
    ]
}
fn f32s() -> impl Strategy<Value = f32> {
    prop_oneof![
        3 => prop::sample::select(vec![0.0f32, -0.0, 1.0, -1.5, f32::MAX, f32::MIN, f32::MIN_POSITIVE, f32::EPSILON, 0.1, 16777217.0]),
        2 => any::<f32>().prop_filter("finite (NaN is not equal to itself; infinities cannot be stored in the JSON replay files)", |f| f.is_finite()),
    ]
}
fn ext<T: Arbitrary + Clone + std::fmt::Debug + 'static>(edges: Vec<T>) -> impl Strategy<Value = T> {
    prop_oneof![1 => prop::sample::select(edges), 1 => any::<T>()]
}

pub fn inner() -> impl Strategy<Value = Inner> {
    (any_string(), elem_string()).prop_map(|(a, v)| Inner { a, v })
}

/// lists: empty / singleton / longer
fn list<S: Strategy + 'static>(item: S) -> impl Strategy<Value = Vec<S::Value>>
where
    S::Value: Clone + std::fmt::Debug,
{
    let item = item.boxed();
    prop_oneof![
        200 => prop::collection::vec(item.clone(), 0..5),
        // long lists: many sibling elements / many xs:list items
        4 => prop::collection::vec(item.clone(), 20..70),
        // more than 128 / 256 items (counters, u8 arithmetic, depth-like bookkeeping per item)
        1 => prop::collection::vec(item, 120..200),
    ]
}

pub fn choice(allow_text: bool) -> BoxedStrategy<Choice> {
    let base = prop_oneof![
        2 => Just(Choice::Unit),
        2 => elem_string().prop_map(Choice::Newtype),
        1 => ext(vec![0, -1, i32::MAX, i32::MIN]).prop_map(Choice::Num),
        2 => (any_string(), any::<i32>()).prop_map(|(y, x)| Choice::Struct { y, x }),
        1 => inner().prop_map(Choice::Nested),
    ];
    if allow_text {
        prop_oneof![4 => base, 2 => elem_string().prop_filter("text item must not be empty", |s| !s.is_empty()).prop_map(Choice::Text)].boxed()
    } else {
        base.boxed()
    }
}

/// never two adjacent text items
pub fn mixed_items() -> impl Strategy<Value = Vec<Choice>> {
    prop::collection::vec(choice(true), 0..7).prop_map(|v| {
        let mut out: Vec<Choice> = vec![];
        for c in v {
            if matches!(c, Choice::Text(_)) && matches!(out.last(), Some(Choice::Text(_))) {
                continue;
            }
            out.push(c);
        }
        out
    })
}

fn tree(depth: u32) -> BoxedStrategy<Tree> {
    let leaf = any::<u8>().prop_map(|v| Tree { v, child: vec![] });
    let bushy = leaf.prop_recursive(depth, 24, 3, |inner| (any::<u8>(), prop::collection::vec(inner, 0..4)).prop_map(|(v, child)| Tree { v, child }));
    // deep chains (depth 20..=60): many open elements at once
    let chain = (20usize..=60, any::<u8>()).prop_map(|(d, v)| {
        let mut t = Tree { v, child: vec![] };
        for k in 0..d {
            t = Tree { v: v.wrapping_add(k as u8), child: if k % 7 == 3 { vec![Tree { v: 1, child: vec![] }, t] } else { vec![t] } };
        }
        t
    });
    prop_oneof![20 => bushy, 1 => chain].boxed()
}

pub fn val_of(ty: Ty) -> BoxedStrategy<Val> {
    match ty {
        Ty::Attrs => (any_string(), ext(vec![0u8, 255]), any::<bool>(), prop::option::of(any_string()), f32s(), color(), prop_oneof![elem_char(), Just(' '), Just('\n')]).prop_map(|(a, b, c, d, e, color, ch)| Val::Attrs(Attrs { a, b, c, d, e, color, ch })).boxed(),
        Ty::Elems => (elem_string(), ext(vec![0, i32::MIN, i32::MAX]), any::<bool>(), prop::option::of(elem_string()), color(), elem_char(), ext(vec![0u64, u64::MAX]), prop::option::of(ext(vec![i8::MIN, i8::MAX])))
            .prop_map(|(a, b, c, d, e, f, g, h)| Val::Elems(Elems { a, b, c, d, e, f, g, h }))
            .boxed(),
        Ty::TextOnly => (any_string(), elem_string()).prop_map(|(k, text)| Val::TextOnly(TextOnly { k, text })).boxed(),
        Ty::TextEnum => color().prop_map(|text| Val::TextEnum(TextEnum { text })).boxed(),
        Ty::TextNum => (any_string(), f64s()).prop_map(|(unit, text)| Val::TextNum(TextNum { unit, text })).boxed(),
        Ty::ListElems => (list(inner()), list(ext(vec![0i16, i16::MIN, i16::MAX])), list(elem_string())).prop_map(|(item, n, s)| Val::ListElems(ListElems { item, n, s })).boxed(),
        Ty::XsLists => (list(any::<u32>()), list(list_item()), list(list_item())).prop_map(|(nums, words, text)| Val::XsLists(XsLists { nums, words, text })).boxed(),
        Ty::ChoiceHolder => (any::<u8>(), choice(true)).prop_map(|(k, choice)| Val::ChoiceHolder(ChoiceHolder { k, choice })).boxed(),
        Ty::MixedList => (any_string(), mixed_items()).prop_map(|(k, items)| Val::MixedList(MixedList { k, items })).boxed(),
        Ty::TagList => list(prop::sample::select(vec![Tag::A, Tag::B, Tag::C])).prop_map(|tags| Val::TagList(TagList { tags })).boxed(),
        Ty::Nested => (any::<u8>(), inner(), prop::option::of(inner()), list(inner()), elem_string()).prop_map(|(id, inner, opt, list, tail)| Val::Nested(Nested { id, inner, opt, list, tail })).boxed(),
        Ty::MapHolder => (any::<u8>(), prop::collection::btree_map(key_name(), elem_string(), 0..5)).prop_map(|(id, m)| Val::MapHolder(MapHolder { id, m })).boxed(),
        Ty::Misc => ((any::<u8>(), elem_string()), inner(), any::<u16>(), any::<bool>()).prop_map(|(t, i, np, after)| Val::Misc(Misc { t, nt: NewtypeInner(i), np: NewtypePrim(np), u: (), us: UnitS, ua: (), after })).boxed(),
        Ty::TopEnum => prop_oneof![Just(TopEnum::A), any::<u32>().prop_map(TopEnum::B), elem_string().prop_map(TopEnum::S), (any::<bool>(), elem_string()).prop_map(|(y, x)| TopEnum::C { y, x }), inner().prop_map(TopEnum::N)].prop_map(Val::TopEnum).boxed(),
        Ty::Nums => (
            (ext(vec![i8::MIN, i8::MAX, 0]), ext(vec![0u64, u64::MAX]), f64s()),
            (ext(vec![i8::MIN, i8::MAX]), ext(vec![i16::MIN, i16::MAX]), ext(vec![i32::MIN, i32::MAX]), ext(vec![i64::MIN, i64::MAX])),
            (ext(vec![0u8, u8::MAX]), ext(vec![0u16, u16::MAX]), ext(vec![0u32, u32::MAX]), ext(vec![0u64, u64::MAX])),
            (f32s(), f64s()),
        )
            .prop_map(|((ai8, au64, af64), (i8_, i16_, i32_, i64_), (u8_, u16_, u32_, u64_), (f32_, f64_))| Val::Nums(Nums { ai8, au64, af64, i8_, i16_, i32_, i64_, u8_, u16_, u32_, u64_, f32_, f64_ }))
            .boxed(),
        Ty::Tree => tree(4).prop_map(Val::Tree).boxed(),
        Ty::TextBool => any::<bool>().prop_map(|text| Val::TextBool(TextBool { text })).boxed(),
        Ty::ValueString => (any::<u8>(), elem_string()).prop_map(|(k, v)| Val::ValueString(ValueString { k, v })).boxed(),
        Ty::MixedTuples => (any::<u8>(), prop::collection::vec(prop_oneof![2 => any::<u8>().prop_map(TChoice::E), 1 => any_string().prop_map(|y| TChoice::S { y }), 2 => (any::<u16>(), any::<i8>()).prop_map(|(a, b)| TChoice::T(a, b)), 2 => elem_string().prop_map(|t| TChoice::B { t })], 0..7))
            .prop_map(|(k, v)| {
                let mut items: Vec<TChoice> = vec![];
                for c in v {
                    if matches!(c, TChoice::T(..)) && matches!(items.last(), Some(TChoice::T(..))) {
                        continue;
                    }
                    items.push(c);
                }
                Val::MixedTuples(MixedTuples { k, items })
            })
            .boxed(),
        Ty::Rows => (list((any::<u8>(), inner(), prop::option::of(inner())).prop_map(|(id, cell, opt)| Row { id, cell, opt })), inner()).prop_map(|(row, last)| Val::Rows(Rows { row, last })).boxed(),
    }
}

pub fn any_val() -> BoxedStrategy<Val> {
    let all: Vec<BoxedStrategy<Val>> = ALL_TYPES.iter().map(|t| val_of(*t)).collect();
    proptest::strategy::Union::new(all).boxed()
}

/// does any string payload of the value contain a character some quote level escapes?
pub fn has_special_payload(v: &Val) -> bool {
    let js = serde_json::to_string(v).unwrap_or_default();
    js.contains('<') || js.contains('>') || js.contains('&') || js.contains('\'') || js.contains("\\\"")
}
