//! Script-driven deserialization targets ("any target type" of C07/C14 as a generated value).
//!
//! A `Script` is a tree of deserializer hints; `run_script` drives a quick-xml deserializer with
//! it exactly the way a `Deserialize` implementation would (protocol-correct use of
//! `Deserializer`, `Visitor`, `SeqAccess`, `MapAccess`, `EnumAccess`, `VariantAccess`) and returns
//! the owned trace of everything the visitors were shown. Derived `Deserialize` impls are the
//! special case "Struct/Seq/Option/... hints whose visitor accepts exactly one visit method";
//! the scripted visitor accepts every visit method, so it goes wherever the deserializer leads.

use serde::de::{DeserializeSeed, Deserializer, EnumAccess, MapAccess, SeqAccess, VariantAccess, Visitor};
use serde::{Deserialize, Serialize};
use std::cell::Cell;
use std::collections::HashMap;
use std::sync::Mutex;

#[derive(Clone, Copy, Debug, Serialize, Deserialize, PartialEq, Eq, Hash)]
pub enum Hint {
    Any,
    Ignored,
    Bool,
    I8,
    I16,
    I32,
    I64,
    I128,
    U8,
    U16,
    U32,
    U64,
    U128,
    F32,
    F64,
    Char,
    Str,
    String,
    Bytes,
    ByteBuf,
    Option,
    Unit,
    UnitStruct,
    Newtype,
    Seq,
    Tuple(u8),
    TupleStruct(u8),
    Map,
    Struct,
    Enum,
    Identifier,
}

pub const ALL_HINTS: &[Hint] = &[
    Hint::Any,
    Hint::Ignored,
    Hint::Bool,
    Hint::I8,
    Hint::I16,
    Hint::I32,
    Hint::I64,
    Hint::I128,
    Hint::U8,
    Hint::U16,
    Hint::U32,
    Hint::U64,
    Hint::U128,
    Hint::F32,
    Hint::F64,
    Hint::Char,
    Hint::Str,
    Hint::String,
    Hint::Bytes,
    Hint::ByteBuf,
    Hint::Option,
    Hint::Unit,
    Hint::UnitStruct,
    Hint::Newtype,
    Hint::Seq,
    Hint::Tuple(0),
    Hint::TupleStruct(0),
    Hint::Tuple(1),
    Hint::Tuple(2),
    Hint::Tuple(3),
    Hint::TupleStruct(2),
    Hint::Map,
    Hint::Struct,
    Hint::Enum,
    Hint::Identifier,
];

#[derive(Clone, Debug, Serialize, Deserialize, PartialEq, Default)]
pub struct Script {
    pub hint: Option<Hint>,
    /// scripts of named children: struct fields, map values by key, enum variants
    pub named: Vec<(String, Script)>,
    /// script of unnamed children: sequence items, Option/newtype payload, values of unknown keys,
    /// payload of unknown variants. `None` = `Any`
    pub other: Option<Box<Script>>,
    /// stop reading a sequence/map after this many entries (0 = read to the end)
    pub stop_after: u8,
    /// how map keys / variant names are requested: 0 identifier, 1 string, 2 str, 3 any
    pub key_hint: u8,
}

impl Script {
    pub fn leaf(h: Hint) -> Script {
        Script { hint: Some(h), ..Default::default() }
    }
    pub fn hint(&self) -> Hint {
        self.hint.unwrap_or(Hint::Any)
    }
    fn child(&self, name: Option<&str>) -> &Script {
        if let Some(n) = name {
            if let Some((_, s)) = self.named.iter().find(|(k, _)| k == n) {
                return s;
            }
        }
        match &self.other {
            Some(b) => b,
            None => &ANY,
        }
    }
    /// does any visitor of the script stop reading a map / an open-ended sequence before its end?
    pub fn has_early_stop(&self) -> bool {
        (self.stop_after > 0 && !matches!(self.hint(), Hint::Tuple(_) | Hint::TupleStruct(_))) || self.named.iter().any(|(_, s)| s.has_early_stop()) || self.other.iter().any(|s| s.has_early_stop())
    }
    pub fn has_zero_length_tuple(&self) -> bool {
        matches!(self.hint(), Hint::Tuple(0) | Hint::TupleStruct(0)) || self.named.iter().any(|(_, s)| s.has_zero_length_tuple()) || self.other.iter().any(|s| s.has_zero_length_tuple())
    }
    pub fn depth(&self) -> usize {
        1 + self.named.iter().map(|(_, s)| s.depth()).chain(self.other.iter().map(|s| s.depth())).max().unwrap_or(0)
    }
    pub fn count(&self, f: &dyn Fn(Hint) -> bool) -> usize {
        (f(self.hint()) as usize) + self.named.iter().map(|(_, s)| s.count(f)).sum::<usize>() + self.other.iter().map(|s| s.count(f)).sum::<usize>()
    }
}

static ANY: Script = Script { hint: None, named: Vec::new(), other: None, stop_after: 0, key_hint: 0 };

/// what the visitors were shown (owned; borrowed/owned string distinctions are not recorded)
#[derive(Clone, Debug, PartialEq, Serialize, Deserialize)]
pub enum Tr {
    Bool(bool),
    I(i128),
    U(u128),
    F(u64),
    Char(char),
    Str(String),
    Bytes(Vec<u8>),
    None,
    Some(Box<Tr>),
    Unit,
    Newtype(Box<Tr>),
    Seq(Vec<Tr>),
    Map(Vec<(Tr, Tr)>),
    Enum(Box<Tr>, Box<Tr>),
}

impl Tr {
    /// the attributes of an element are an unordered set: sort the leading run of `@` keys of every map
    pub fn with_sorted_attributes(&self) -> Tr {
        match self {
            Tr::Map(entries) => {
                let mut e: Vec<(Tr, Tr)> = entries.iter().map(|(k, v)| (k.clone(), v.with_sorted_attributes())).collect();
                let n = e.iter().take_while(|(k, _)| matches!(k, Tr::Str(s) if s.starts_with('@'))).count();
                // (two attributes with different prefixes and the same local name arrive under the
                // same key - documented: only the local name is kept - so the value breaks the tie)
                e[..n].sort_by(|a, b| format!("{:?}", a).cmp(&format!("{:?}", b)));
                Tr::Map(e)
            }
            Tr::Some(x) => Tr::Some(Box::new(x.with_sorted_attributes())),
            Tr::Newtype(x) => Tr::Newtype(Box::new(x.with_sorted_attributes())),
            Tr::Seq(v) => Tr::Seq(v.iter().map(|x| x.with_sorted_attributes()).collect()),
            Tr::Enum(k, v) => Tr::Enum(k.clone(), Box::new(v.with_sorted_attributes())),
            other => other.clone(),
        }
    }
}

thread_local! {
    static STEPS: Cell<usize> = Cell::new(0);
    static BUDGET: Cell<usize> = Cell::new(usize::MAX);
    static OVERRUN: Cell<bool> = Cell::new(false);
}

pub fn set_budget(n: usize) {
    STEPS.with(|s| s.set(0));
    BUDGET.with(|b| b.set(n));
    OVERRUN.with(|o| o.set(false));
}
pub fn overrun() -> bool {
    OVERRUN.with(|o| o.get())
}
pub fn steps() -> usize {
    STEPS.with(|s| s.get())
}
fn step<E: serde::de::Error>() -> Result<(), E> {
    let n = STEPS.with(|s| {
        s.set(s.get() + 1);
        s.get()
    });
    if n > BUDGET.with(|b| b.get()) {
        OVERRUN.with(|o| o.set(true));
        return Err(E::custom("qxv: visitor step budget exhausted"));
    }
    Ok(())
}

/// `&'static [&'static str]` for deserialize_struct / deserialize_enum / struct_variant: leaked
/// once per distinct name list
fn static_names(names: &[String]) -> &'static [&'static str] {
    static CACHE: Mutex<Option<HashMap<Vec<String>, &'static [&'static str]>>> = Mutex::new(None);
    let mut g = CACHE.lock().unwrap();
    let m = g.get_or_insert_with(HashMap::new);
    if let Some(s) = m.get(names) {
        return s;
    }
    let leaked: Vec<&'static str> = names.iter().map(|n| &*Box::leak(n.clone().into_boxed_str())).collect();
    let s: &'static [&'static str] = Box::leak(leaked.into_boxed_slice());
    m.insert(names.to_vec(), s);
    s
}

pub struct Seed<'s>(pub &'s Script);

impl<'de, 's> DeserializeSeed<'de> for Seed<'s> {
    type Value = Tr;
    fn deserialize<D: Deserializer<'de>>(self, d: D) -> Result<Tr, D::Error> {
        step::<D::Error>()?;
        let s = self.0;
        let v = V(s);
        match s.hint() {
            Hint::Any => d.deserialize_any(v),
            Hint::Ignored => d.deserialize_ignored_any(v),
            Hint::Bool => d.deserialize_bool(v),
            Hint::I8 => d.deserialize_i8(v),
            Hint::I16 => d.deserialize_i16(v),
            Hint::I32 => d.deserialize_i32(v),
            Hint::I64 => d.deserialize_i64(v),
            Hint::I128 => d.deserialize_i128(v),
            Hint::U8 => d.deserialize_u8(v),
            Hint::U16 => d.deserialize_u16(v),
            Hint::U32 => d.deserialize_u32(v),
            Hint::U64 => d.deserialize_u64(v),
            Hint::U128 => d.deserialize_u128(v),
            Hint::F32 => d.deserialize_f32(v),
            Hint::F64 => d.deserialize_f64(v),
            Hint::Char => d.deserialize_char(v),
            Hint::Str => d.deserialize_str(v),
            Hint::String => d.deserialize_string(v),
            Hint::Bytes => d.deserialize_bytes(v),
            Hint::ByteBuf => d.deserialize_byte_buf(v),
            Hint::Option => d.deserialize_option(v),
            Hint::Unit => d.deserialize_unit(v),
            Hint::UnitStruct => d.deserialize_unit_struct("UnitS", v),
            Hint::Newtype => d.deserialize_newtype_struct("Newtype", v),
            Hint::Seq => d.deserialize_seq(v),
            Hint::Tuple(n) => d.deserialize_tuple(n as usize, v),
            Hint::TupleStruct(n) => d.deserialize_tuple_struct("TupleS", n as usize, v),
            Hint::Map => d.deserialize_map(v),
            Hint::Struct => {
                let names: Vec<String> = s.named.iter().map(|(k, _)| k.clone()).collect();
                d.deserialize_struct("StructS", static_names(&names), v)
            }
            Hint::Enum => {
                let names: Vec<String> = s.named.iter().map(|(k, _)| k.clone()).collect();
                d.deserialize_enum("EnumS", static_names(&names), v)
            }
            Hint::Identifier => d.deserialize_identifier(v),
        }
    }
}

/// key / variant-name requests
struct KeySeed(u8);
impl<'de> DeserializeSeed<'de> for KeySeed {
    type Value = Tr;
    fn deserialize<D: Deserializer<'de>>(self, d: D) -> Result<Tr, D::Error> {
        step::<D::Error>()?;
        let v = V(&ANY);
        match self.0 % 4 {
            0 => d.deserialize_identifier(v),
            1 => d.deserialize_string(v),
            2 => d.deserialize_str(v),
            _ => d.deserialize_any(v),
        }
    }
}

struct V<'s>(&'s Script);

impl<'de, 's> Visitor<'de> for V<'s> {
    type Value = Tr;
    fn expecting(&self, f: &mut std::fmt::Formatter) -> std::fmt::Result {
        f.write_str("anything")
    }
    fn visit_bool<E>(self, v: bool) -> Result<Tr, E> {
        Ok(Tr::Bool(v))
    }
    fn visit_i8<E>(self, v: i8) -> Result<Tr, E> {
        Ok(Tr::I(v as i128))
    }
    fn visit_i16<E>(self, v: i16) -> Result<Tr, E> {
        Ok(Tr::I(v as i128))
    }
    fn visit_i32<E>(self, v: i32) -> Result<Tr, E> {
        Ok(Tr::I(v as i128))
    }
    fn visit_i64<E>(self, v: i64) -> Result<Tr, E> {
        Ok(Tr::I(v as i128))
    }
    fn visit_i128<E>(self, v: i128) -> Result<Tr, E> {
        Ok(Tr::I(v))
    }
    fn visit_u8<E>(self, v: u8) -> Result<Tr, E> {
        Ok(Tr::U(v as u128))
    }
    fn visit_u16<E>(self, v: u16) -> Result<Tr, E> {
        Ok(Tr::U(v as u128))
    }
    fn visit_u32<E>(self, v: u32) -> Result<Tr, E> {
        Ok(Tr::U(v as u128))
    }
    fn visit_u64<E>(self, v: u64) -> Result<Tr, E> {
        Ok(Tr::U(v as u128))
    }
    fn visit_u128<E>(self, v: u128) -> Result<Tr, E> {
        Ok(Tr::U(v))
    }
    fn visit_f32<E>(self, v: f32) -> Result<Tr, E> {
        Ok(Tr::F(v.to_bits() as u64))
    }
    fn visit_f64<E>(self, v: f64) -> Result<Tr, E> {
        Ok(Tr::F(v.to_bits()))
    }
    fn visit_char<E>(self, v: char) -> Result<Tr, E> {
        Ok(Tr::Char(v))
    }
    fn visit_str<E>(self, v: &str) -> Result<Tr, E> {
        Ok(Tr::Str(v.to_string()))
    }
    fn visit_string<E>(self, v: String) -> Result<Tr, E> {
        Ok(Tr::Str(v))
    }
    fn visit_bytes<E>(self, v: &[u8]) -> Result<Tr, E> {
        Ok(Tr::Bytes(v.to_vec()))
    }
    fn visit_byte_buf<E>(self, v: Vec<u8>) -> Result<Tr, E> {
        Ok(Tr::Bytes(v))
    }
    fn visit_none<E>(self) -> Result<Tr, E> {
        Ok(Tr::None)
    }
    fn visit_unit<E>(self) -> Result<Tr, E> {
        Ok(Tr::Unit)
    }
    fn visit_some<D: Deserializer<'de>>(self, d: D) -> Result<Tr, D::Error> {
        Ok(Tr::Some(Box::new(Seed(self.0.child(None)).deserialize(d)?)))
    }
    fn visit_newtype_struct<D: Deserializer<'de>>(self, d: D) -> Result<Tr, D::Error> {
        Ok(Tr::Newtype(Box::new(Seed(self.0.child(None)).deserialize(d)?)))
    }
    fn visit_seq<A: SeqAccess<'de>>(self, mut a: A) -> Result<Tr, A::Error> {
        let mut out = vec![];
        let limit = match self.0.hint() {
            Hint::Tuple(n) | Hint::TupleStruct(n) => n as usize,
            _ if self.0.stop_after > 0 => self.0.stop_after as usize,
            _ => usize::MAX,
        };
        while out.len() < limit {
            step::<A::Error>()?;
            match a.next_element_seed(Seed(self.0.child(None)))? {
                Some(x) => out.push(x),
                None => break,
            }
        }
        Ok(Tr::Seq(out))
    }
    fn visit_map<A: MapAccess<'de>>(self, mut a: A) -> Result<Tr, A::Error> {
        let mut out = vec![];
        let limit = if self.0.stop_after > 0 { self.0.stop_after as usize } else { usize::MAX };
        while out.len() < limit {
            step::<A::Error>()?;
            let k = match a.next_key_seed(KeySeed(self.0.key_hint))? {
                Some(k) => k,
                None => break,
            };
            let name = match &k {
                Tr::Str(s) => Some(s.as_str()),
                _ => None,
            };
            let v = a.next_value_seed(Seed(self.0.child(name)))?;
            out.push((k, v));
        }
        Ok(Tr::Map(out))
    }
    fn visit_enum<A: EnumAccess<'de>>(self, a: A) -> Result<Tr, A::Error> {
        step::<A::Error>()?;
        let (k, va) = a.variant_seed(KeySeed(self.0.key_hint))?;
        let name = match &k {
            Tr::Str(s) => Some(s.as_str()),
            _ => None,
        };
        let c = self.0.child(name);
        let payload = match c.hint() {
            Hint::Unit | Hint::UnitStruct => {
                va.unit_variant()?;
                Tr::Unit
            }
            Hint::Tuple(n) | Hint::TupleStruct(n) => va.tuple_variant(n as usize, V(c))?,
            Hint::Struct | Hint::Map => {
                let names: Vec<String> = c.named.iter().map(|(k, _)| k.clone()).collect();
                va.struct_variant(static_names(&names), V(c))?
            }
            _ => va.newtype_variant_seed(Seed(c))?,
        };
        Ok(Tr::Enum(Box::new(k), Box::new(payload)))
    }
}

/// Wrapper so that the top-level `from_str::<T>` / `from_reader::<_, T>` entry points can be used:
/// the script travels in a thread-local.
thread_local! {
    static CURRENT: std::cell::RefCell<Option<Script>> = std::cell::RefCell::new(None);
}
pub struct Scripted(pub Tr);
impl<'de> Deserialize<'de> for Scripted {
    fn deserialize<D: Deserializer<'de>>(d: D) -> Result<Self, D::Error> {
        let s = CURRENT.with(|c| c.borrow().clone()).unwrap_or_default();
        Seed(&s).deserialize(d).map(Scripted)
    }
}

pub fn from_str(script: &Script, xml: &str) -> Result<Tr, String> {
    CURRENT.with(|c| *c.borrow_mut() = Some(script.clone()));
    quick_xml::de::from_str::<Scripted>(xml).map(|s| s.0).map_err(|e| e.to_string())
}
pub fn from_reader<R: std::io::BufRead>(script: &Script, r: R) -> Result<Tr, String> {
    CURRENT.with(|c| *c.borrow_mut() = Some(script.clone()));
    quick_xml::de::from_reader::<R, Scripted>(r).map(|s| s.0).map_err(|e| e.to_string())
}

// ---------------------------------------------------------------------------------------------
// script generation directed by a document

struct Node {
    name: String,
    attrs: Vec<String>,
    children: Vec<Node>,
    has_text: bool,
}

fn parse_tree(xml: &str) -> Vec<Node> {
    use crate::refxml::{lex, Tok};
    let mut stack: Vec<Node> = vec![Node { name: String::new(), attrs: vec![], children: vec![], has_text: false }];
    let mk = |c: &[u8], n: usize| -> Node {
        let name = String::from_utf8_lossy(&c[..n]).into_owned();
        let mut attrs = vec![];
        for a in quick_xml::events::attributes::Attributes::html(std::str::from_utf8(c).unwrap_or(""), n).with_checks(false).flatten() {
            attrs.push(String::from_utf8_lossy(a.key.as_ref()).into_owned());
        }
        Node { name, attrs, children: vec![], has_text: false }
    };
    for l in lex(xml.as_bytes()) {
        match l.tok {
            Tok::Start(c, n) => stack.push(mk(&c, n)),
            Tok::Empty(c, n) => {
                let node = mk(&c, n);
                stack.last_mut().unwrap().children.push(node);
            }
            Tok::End(_) => {
                if stack.len() > 1 {
                    let node = stack.pop().unwrap();
                    stack.last_mut().unwrap().children.push(node);
                }
            }
            Tok::Text(t) => {
                if t.iter().any(|b| !crate::refxml::ws(*b)) {
                    stack.last_mut().unwrap().has_text = true;
                }
            }
            Tok::CData(_) => stack.last_mut().unwrap().has_text = true,
            _ => {}
        }
    }
    while stack.len() > 1 {
        let node = stack.pop().unwrap();
        stack.last_mut().unwrap().children.push(node);
    }
    stack.pop().unwrap().children
}

struct Choices<'a> {
    b: &'a [u8],
    i: usize,
}
impl<'a> Choices<'a> {
    fn next(&mut self) -> u8 {
        let v = self.b.get(self.i).copied().unwrap_or(0);
        self.i += 1;
        v
    }
    fn pick<'t, T>(&mut self, xs: &'t [T]) -> &'t T {
        let v = self.next() as usize;
        &xs[v * xs.len() / 256]
    }
}

const TEXT_HINTS: &[Hint] = &[
    Hint::Any,
    Hint::String,
    Hint::Str,
    Hint::Bool,
    Hint::I64,
    Hint::U8,
    Hint::F64,
    Hint::Char,
    Hint::Bytes,
    Hint::ByteBuf,
    Hint::Option,
    Hint::Seq,
    Hint::Enum,
    Hint::Unit,
    Hint::Ignored,
    Hint::Newtype,
    Hint::Identifier,
    Hint::I128,
    Hint::U128,
    Hint::F32,
    Hint::Tuple(2),
    Hint::UnitStruct,
    Hint::Map,
    Hint::Struct,
];
const ELEM_HINTS: &[Hint] = &[Hint::Any, Hint::Struct, Hint::Struct, Hint::Map, Hint::Struct, Hint::Enum, Hint::Option, Hint::Newtype, Hint::Seq, Hint::Ignored, Hint::Unit, Hint::Tuple(2), Hint::String, Hint::Map, Hint::Struct, Hint::TupleStruct(2)];
const EXTRA_NAMES: &[&str] = &["$text", "$value", "@a", "@k", "a", "v", "item", "@xsi:nil", "Unit", "Newtype", "zz"];

fn script_for(n: &Node, ch: &mut Choices, depth: usize) -> Script {
    let textish = n.children.is_empty();
    let hint = if textish { *ch.pick(TEXT_HINTS) } else { *ch.pick(ELEM_HINTS) };
    let mut s = Script { hint: Some(hint), ..Default::default() };
    let flags = ch.next();
    // zero-length tuples (`struct T();`, `[T; 0]`) are rare on purpose: they are the subject of
    // known finding F14 and a script that contains one cannot witness another non-termination
    if flags == 0xE3 || flags == 0xE7 {
        s.hint = Some(if flags == 0xE3 { Hint::Tuple(0) } else { Hint::TupleStruct(0) });
    }
    let hint = s.hint();
    s.key_hint = flags & 3;
    s.stop_after = if flags & 0x1c == 0x1c && std::env::var_os("QXV_NO_EARLY_STOP").is_none() { 1 + ((flags >> 5) & 3) } else { 0 };
    if depth > 12 {
        return s;
    }
    // named children: attributes (with and without `@`), distinct child names, text
    let mut seen: Vec<&str> = vec![];
    for a in &n.attrs {
        let sub = Script::leaf(*ch.pick(TEXT_HINTS));
        s.named.push((format!("@{}", a), sub));
    }
    for c in &n.children {
        if seen.contains(&c.name.as_str()) {
            continue;
        }
        seen.push(&c.name);
        let repeated = n.children.iter().filter(|d| d.name == c.name).count() > 1;
        let item = script_for(c, ch, depth + 1);
        let sel = ch.next();
        let sub = if repeated && sel < 200 || sel >= 240 {
            // a list field
            Script { hint: Some(Hint::Seq), other: Some(Box::new(item)), stop_after: if sel % 16 == 15 && std::env::var_os("QXV_NO_EARLY_STOP").is_none() { 1 } else { 0 }, ..Default::default() }
        } else if sel >= 225 {
            Script { hint: Some(Hint::Option), other: Some(Box::new(item)), ..Default::default() }
        } else {
            item
        };
        s.named.push((c.name.clone(), sub));
    }
    let sel = ch.next();
    if n.has_text || sel < 48 {
        let sub = Script::leaf(*ch.pick(TEXT_HINTS));
        s.named.push((if sel & 1 == 0 { "$text" } else { "$value" }.to_string(), sub));
    }
    // a name that is not in the document / a special name
    if sel >= 200 {
        let nm = *ch.pick(EXTRA_NAMES);
        if !s.named.iter().any(|(k, _)| k == nm) {
            s.named.push((nm.to_string(), Script::leaf(*ch.pick(TEXT_HINTS))));
        }
    }
    // drop a name now and then (unknown field for the script)
    if sel % 8 == 7 && !s.named.is_empty() {
        let k = (ch.next() as usize) * s.named.len() / 256;
        s.named.remove(k);
    }
    // `other`: payload of Option/Newtype, sequence items, unknown keys
    match hint {
        Hint::Option | Hint::Newtype | Hint::Seq | Hint::Tuple(_) | Hint::TupleStruct(_) => {
            let inner_hint = if textish { *ch.pick(TEXT_HINTS) } else { *ch.pick(ELEM_HINTS) };
            let mut inner = Script { hint: Some(inner_hint), named: std::mem::take(&mut s.named), ..Default::default() };
            inner.key_hint = s.key_hint;
            s.other = Some(Box::new(inner));
        }
        _ => {
            let o = ch.next();
            if o < 64 {
                s.other = Some(Box::new(Script::leaf(*ch.pick(TEXT_HINTS))));
            } else if o < 96 {
                s.other = Some(Box::new(Script::leaf(Hint::Ignored)));
            }
        }
    }
    s
}

/// A script that fits the (valid) document `xml` more or less: which hint is used where is decided
/// by `choices` (zeros = `Any` everywhere).
pub fn script_from_doc(xml: &str, choices: &[u8]) -> Script {
    let roots = parse_tree(xml);
    let mut ch = Choices { b: choices, i: 0 };
    let top = ch.next();
    match roots.first() {
        None => Script::leaf(*ch.pick(TEXT_HINTS)),
        Some(r) => {
            let s = script_for(r, &mut ch, 0);
            if roots.len() > 1 || top >= 230 {
                // top-level sequence
                Script { hint: Some(Hint::Seq), other: Some(Box::new(s)), ..Default::default() }
            } else {
                s
            }
        }
    }
}
