//! Independent XML 1.1 `Name` predicate, transcribed from the specification
//! (https://www.w3.org/TR/xml11/#NT-Name), not from the library.

pub fn is_name_start_char(c: char) -> bool {
    let u = c as u32;
    c == ':'
        || c == '_'
        || c.is_ascii_alphabetic()
        || (0xC0..=0xD6).contains(&u)
        || (0xD8..=0xF6).contains(&u)
        || (0xF8..=0x2FF).contains(&u)
        || (0x370..=0x37D).contains(&u)
        || (0x37F..=0x1FFF).contains(&u)
        || (0x200C..=0x200D).contains(&u)
        || (0x2070..=0x218F).contains(&u)
        || (0x2C00..=0x2FEF).contains(&u)
        || (0x3001..=0xD7FF).contains(&u)
        || (0xF900..=0xFDCF).contains(&u)
        || (0xFDF0..=0xFFFD).contains(&u)
        || (0x10000..=0xEFFFF).contains(&u)
}

pub fn is_name_char(c: char) -> bool {
    let u = c as u32;
    is_name_start_char(c) || c == '-' || c == '.' || c.is_ascii_digit() || u == 0xB7 || (0x300..=0x36F).contains(&u) || (0x203F..=0x2040).contains(&u)
}

/// Name ::= NameStartChar (NameChar)*   — in particular, not empty
pub fn is_name(s: &str) -> bool {
    let mut it = s.chars();
    match it.next() {
        Some(c) if is_name_start_char(c) => it.all(is_name_char),
        _ => false,
    }
}
