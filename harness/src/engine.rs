//! Check engine shared by all properties: verdicts, statistics, known findings, evidence
//! and replay files, proptest and exhaustive drivers.

use proptest::strategy::{Strategy, ValueTree};
use proptest::test_runner::{Config, RngAlgorithm, TestCaseError, TestError, TestRng, TestRunner};
use serde::{de::DeserializeOwned, Serialize};
use serde_json::{json, Value};
use std::collections::{BTreeMap, HashSet};
use std::hash::{Hash, Hasher};
use std::panic::{catch_unwind, AssertUnwindSafe};
use std::sync::atomic::{AtomicBool, AtomicU64, Ordering};
use std::sync::Mutex;
use std::time::Instant;

pub const VERIF_ROOT: &str = "/verif";

// ---------------------------------------------------------------------------------------------
// deterministic PRNG for everything that is not generated through proptest

#[derive(Clone, Debug)]
pub struct SplitMix64(pub u64);
impl SplitMix64 {
    pub fn new(seed: u64) -> Self {
        SplitMix64(seed)
    }
    pub fn derive(seed: u64, tag: &str, shard: u64) -> Self {
        let mut h = fnv(tag.as_bytes());
        h ^= seed.wrapping_mul(0x9E37_79B9_7F4A_7C15);
        h = h.wrapping_add(shard.wrapping_mul(0xD1B5_4A32_D192_ED03));
        let mut r = SplitMix64(h);
        r.next();
        r
    }
    pub fn next(&mut self) -> u64 {
        self.0 = self.0.wrapping_add(0x9E37_79B9_7F4A_7C15);
        let mut z = self.0;
        z = (z ^ (z >> 30)).wrapping_mul(0xBF58_476D_1CE4_E5B9);
        z = (z ^ (z >> 27)).wrapping_mul(0x94D0_49BB_1331_11EB);
        z ^ (z >> 31)
    }
    /// uniform in 0..n (n > 0)
    pub fn below(&mut self, n: u64) -> u64 {
        ((self.next() as u128 * n as u128) >> 64) as u64
    }
    pub fn chance(&mut self, num: u64, den: u64) -> bool {
        self.below(den) < num
    }
    pub fn pick<'a, T>(&mut self, xs: &'a [T]) -> &'a T {
        &xs[self.below(xs.len() as u64) as usize]
    }
}

pub fn fnv(b: &[u8]) -> u64 {
    let mut h: u64 = 0xcbf2_9ce4_8422_2325;
    for &x in b {
        h ^= x as u64;
        h = h.wrapping_mul(0x0000_0100_0000_01B3);
    }
    h
}

pub fn hash_of<T: Hash>(t: &T) -> u64 {
    let mut h = Fnv(0xcbf2_9ce4_8422_2325);
    t.hash(&mut h);
    h.0
}
struct Fnv(u64);
impl Hasher for Fnv {
    fn finish(&self) -> u64 {
        self.0
    }
    fn write(&mut self, bytes: &[u8]) {
        for &x in bytes {
            self.0 ^= x as u64;
            self.0 = self.0.wrapping_mul(0x0000_0100_0000_01B3);
        }
    }
}

// ---------------------------------------------------------------------------------------------
// byte strings that serialise readably and exactly

/// Byte string; JSON form is a string in which printable ASCII stands for itself, `\\` for a
/// backslash and `\xNN` for every other byte.
#[derive(Clone, PartialEq, Eq, Hash, PartialOrd, Ord, Default)]
pub struct B(pub Vec<u8>);
impl B {
    pub fn show(b: &[u8]) -> String {
        let mut s = String::with_capacity(b.len());
        for &c in b {
            match c {
                b'\\' => s.push_str("\\\\"),
                0x20..=0x7e => s.push(c as char),
                _ => s.push_str(&format!("\\x{:02x}", c)),
            }
        }
        s
    }
    pub fn parse(s: &str) -> Result<Vec<u8>, String> {
        let b = s.as_bytes();
        let mut out = vec![];
        let mut i = 0;
        while i < b.len() {
            if b[i] == b'\\' {
                if i + 1 < b.len() && b[i + 1] == b'\\' {
                    out.push(b'\\');
                    i += 2;
                } else if i + 3 < b.len() && b[i + 1] == b'x' {
                    let h = std::str::from_utf8(&b[i + 2..i + 4]).map_err(|e| e.to_string())?;
                    out.push(u8::from_str_radix(h, 16).map_err(|e| e.to_string())?);
                    i += 4;
                } else {
                    return Err(format!("bad escape at {}", i));
                }
            } else {
                out.push(b[i]);
                i += 1;
            }
        }
        Ok(out)
    }
}
impl std::fmt::Debug for B {
    fn fmt(&self, f: &mut std::fmt::Formatter) -> std::fmt::Result {
        write!(f, "b\"{}\"", B::show(&self.0))
    }
}
impl Serialize for B {
    fn serialize<S: serde::Serializer>(&self, s: S) -> Result<S::Ok, S::Error> {
        s.serialize_str(&B::show(&self.0))
    }
}
impl<'de> serde::Deserialize<'de> for B {
    fn deserialize<D: serde::Deserializer<'de>>(d: D) -> Result<Self, D::Error> {
        let s = String::deserialize(d)?;
        B::parse(&s).map(B).map_err(serde::de::Error::custom)
    }
}
impl From<Vec<u8>> for B {
    fn from(v: Vec<u8>) -> Self {
        B(v)
    }
}
impl From<&[u8]> for B {
    fn from(v: &[u8]) -> Self {
        B(v.to_vec())
    }
}
impl std::ops::Deref for B {
    type Target = [u8];
    fn deref(&self) -> &[u8] {
        &self.0
    }
}

// ---------------------------------------------------------------------------------------------
// verdict of one oracle execution

#[derive(Debug, Default, Clone)]
pub struct Verdict {
    /// satisfied the property's non-triviality rule
    pub nontrivial: bool,
    /// generator/oracle class labels (histogram in the evidence)
    pub classes: Vec<&'static str>,
    /// outside the domain on which the oracle speaks: only totality was checked
    pub excluded: Option<&'static str>,
    /// discrepancies that match the signature of a known finding (signature ids)
    pub known: Vec<&'static str>,
    /// a discrepancy that is not explained by anything: the property is violated
    pub fail: Option<String>,
}
impl Verdict {
    pub fn pass(nontrivial: bool) -> Self {
        Verdict { nontrivial, ..Default::default() }
    }
    pub fn fail<S: Into<String>>(msg: S) -> Self {
        Verdict { fail: Some(msg.into()), nontrivial: true, ..Default::default() }
    }
    pub fn excluded(why: &'static str) -> Self {
        Verdict { excluded: Some(why), ..Default::default() }
    }
    pub fn class(mut self, c: &'static str) -> Self {
        self.classes.push(c);
        self
    }
    pub fn class_if(mut self, cond: bool, c: &'static str) -> Self {
        if cond {
            self.classes.push(c);
        }
        self
    }
}

macro_rules! vfail {
    ($($arg:tt)*) => { return $crate::engine::Verdict::fail(format!($($arg)*)) };
}
pub(crate) use vfail;

// ---------------------------------------------------------------------------------------------
// known findings

#[derive(Debug, Clone)]
pub struct KnownFinding {
    pub property: String,
    pub signature: String,
    pub status: String,
    pub description: String,
}

pub fn load_known_findings() -> Vec<KnownFinding> {
    let path = format!("{}/known_findings.json", VERIF_ROOT);
    let txt = match std::fs::read_to_string(&path) {
        Ok(t) => t,
        Err(_) => return vec![],
    };
    let v: Value = serde_json::from_str(&txt).expect("known_findings.json is not valid JSON");
    let mut out = vec![];
    for e in v["findings"].as_array().cloned().unwrap_or_default() {
        out.push(KnownFinding {
            property: e["property"].as_str().unwrap_or("").to_string(),
            signature: e["signature"].as_str().unwrap_or("").to_string(),
            status: e["status"].as_str().unwrap_or("").to_string(),
            description: e["description"].as_str().unwrap_or("").to_string(),
        });
    }
    out
}

// ---------------------------------------------------------------------------------------------
// statistics of one check run

const DISTINCT_CAP: usize = 4_000_000;
const MAX_SAMPLES: usize = 12;

#[derive(Default)]
pub struct Stats {
    pub evaluations: u64,
    pub nontrivial: u64,
    /// number of non-trivial cases known distinct by construction (exhaustive enumerations)
    pub distinct_by_construction: u64,
    /// hashes of non-trivial cases from random generators
    pub distinct_hashes: HashSet<u64>,
    pub distinct_capped: bool,
    pub classes: BTreeMap<String, u64>,
    pub excluded: BTreeMap<String, u64>,
    pub known: BTreeMap<String, u64>,
    pub known_examples: BTreeMap<String, Value>,
    pub samples: Vec<Value>,
    pub stages: Vec<Value>,
    pub fails: Vec<(String, Value, String)>, // (stage, case json, message)
}
impl Stats {
    pub fn merge(&mut self, o: Stats) {
        self.evaluations += o.evaluations;
        self.nontrivial += o.nontrivial;
        self.distinct_by_construction += o.distinct_by_construction;
        for h in o.distinct_hashes {
            if self.distinct_hashes.len() < DISTINCT_CAP {
                self.distinct_hashes.insert(h);
            } else {
                self.distinct_capped = true;
            }
        }
        self.distinct_capped |= o.distinct_capped;
        for (k, v) in o.classes {
            *self.classes.entry(k).or_default() += v;
        }
        for (k, v) in o.excluded {
            *self.excluded.entry(k).or_default() += v;
        }
        for (k, v) in o.known {
            *self.known.entry(k).or_default() += v;
        }
        for (k, v) in o.known_examples {
            self.known_examples.entry(k).or_insert(v);
        }
        for s in o.samples {
            if self.samples.len() < MAX_SAMPLES {
                self.samples.push(s);
            }
        }
        self.stages.extend(o.stages);
        self.fails.extend(o.fails);
    }
    pub fn distinct_nontrivial(&self) -> u64 {
        self.distinct_by_construction + self.distinct_hashes.len() as u64
    }
}

/// Per-worker accumulator. `record` is the only way a verdict enters the statistics.
pub struct Acc<'a> {
    pub ctx: &'a Ctx,
    pub stage: &'a str,
    pub exhaustive: bool,
    pub st: Stats,
}
impl<'a> Acc<'a> {
    pub fn new(ctx: &'a Ctx, stage: &'a str, exhaustive: bool) -> Self {
        Acc { ctx, stage, exhaustive, st: Stats::default() }
    }
    /// returns true if the case failed
    pub fn record<C: Serialize>(&mut self, case: &C, v: Verdict) -> bool {
        self.ctx.heartbeat.fetch_add(1, Ordering::Relaxed);
        self.st.evaluations += 1;
        for c in &v.classes {
            *self.st.classes.entry(c.to_string()).or_default() += 1;
        }
        if let Some(e) = v.excluded {
            *self.st.excluded.entry(e.to_string()).or_default() += 1;
        }
        let mut fail = v.fail.clone();
        for k in &v.known {
            if self.ctx.is_known(k) {
                let n = self.st.known.entry(k.to_string()).or_default();
                *n += 1;
                if *n == 1 {
                    self.st.known_examples.insert(k.to_string(), serde_json::to_value(case).unwrap_or(Value::Null));
                }
            } else if fail.is_none() {
                fail = Some(format!("discrepancy with signature `{}` (not listed as a known finding)", k));
            }
        }
        if v.nontrivial && v.excluded.is_none() {
            self.st.nontrivial += 1;
            if self.exhaustive {
                self.st.distinct_by_construction += 1;
            } else if self.st.distinct_hashes.len() < DISTINCT_CAP / 16 {
                let js = serde_json::to_vec(case).unwrap_or_default();
                self.st.distinct_hashes.insert(fnv(&js));
            } else {
                self.st.distinct_capped = true;
            }
            let n = self.st.nontrivial;
            if self.st.samples.len() < MAX_SAMPLES && (n & (n - 1)) == 0 && n.trailing_zeros() % 3 == 0 {
                let mut s = json!({"stage": self.stage, "case": serde_json::to_value(case).unwrap_or(Value::Null)});
                if !v.classes.is_empty() {
                    s["classes"] = json!(v.classes);
                }
                self.st.samples.push(s);
            }
        }
        if let Some(msg) = fail {
            if self.st.fails.len() < 16 {
                self.st.fails.push((self.stage.to_string(), serde_json::to_value(case).unwrap_or(Value::Null), msg));
            }
            self.ctx.failed.store(true, Ordering::Relaxed);
            return true;
        }
        false
    }
}

// ---------------------------------------------------------------------------------------------
// context of one `qxv check` invocation

#[derive(Clone, Copy, PartialEq, Eq, Debug)]
pub enum Tier {
    Quick,
    Thorough,
}
impl Tier {
    pub fn pick<T>(self, quick: T, thorough: T) -> T {
        match self {
            Tier::Quick => quick,
            Tier::Thorough => thorough,
        }
    }
    pub fn name(self) -> &'static str {
        self.pick("quick", "thorough")
    }
}

pub struct Ctx {
    pub property: String,
    pub tier: Tier,
    pub seed: u64,
    pub variant: &'static str,
    pub known: Vec<KnownFinding>,
    pub stats: Mutex<Stats>,
    pub failed: AtomicBool,
    pub heartbeat: AtomicU64,
    pub start: Instant,
    pub threads: usize,
}

impl Ctx {
    pub fn new(property: &str, tier: Tier, seed: u64) -> Self {
        Ctx {
            property: property.to_string(),
            tier,
            seed,
            variant: crate::VARIANT,
            known: load_known_findings(),
            stats: Mutex::new(Stats::default()),
            failed: AtomicBool::new(false),
            heartbeat: AtomicU64::new(0),
            start: Instant::now(),
            threads: std::thread::available_parallelism().map(|n| n.get()).unwrap_or(4).min(16),
        }
    }
    pub fn is_known(&self, sig: &str) -> bool {
        self.known.iter().any(|k| k.property == self.property && k.signature == sig && k.status == "known")
    }
    pub fn has_failed(&self) -> bool {
        self.failed.load(Ordering::Relaxed)
    }
    pub fn merge(&self, st: Stats) {
        self.stats.lock().unwrap().merge(st);
    }
    pub fn note_stage(&self, name: &str, info: Value) {
        self.stats.lock().unwrap().stages.push(json!({"stage": name, "info": info}));
    }

    /// Run `check` over an enumerated domain `0..n` (case = `make(index)`), sharded over all
    /// cores. The enumeration is deterministic and every case is distinct by construction.
    /// `make` may return None for indices that do not denote a case.
    pub fn run_indexed<C, M, F>(&self, stage: &str, n: u64, make: M, check: F)
    where
        C: Serialize + Send,
        M: Fn(u64) -> Option<C> + Sync,
        F: Fn(&C) -> Verdict + Sync,
    {
        self.run_indexed_mode(stage, n, true, make, check)
    }

    pub fn run_indexed_mode<C, M, F>(&self, stage: &str, n: u64, exhaustive: bool, make: M, check: F)
    where
        C: Serialize + Send,
        M: Fn(u64) -> Option<C> + Sync,
        F: Fn(&C) -> Verdict + Sync,
    {
        self.run_groups(stage, n, exhaustive, |i| make(i).into_iter().collect::<Vec<C>>(), check)
    }

    /// Like `run_indexed_mode`, but every index denotes a group of cases (e.g. all fault points
    /// of one document and chunking); every case of the group is one evaluation.
    pub fn run_groups<C, M, F>(&self, stage: &str, n: u64, exhaustive: bool, make: M, check: F)
    where
        C: Serialize + Send,
        M: Fn(u64) -> Vec<C> + Sync,
        F: Fn(&C) -> Verdict + Sync,
    {
        let t0 = Instant::now();
        let next = AtomicU64::new(0);
        let block: u64 = (n / (self.threads as u64 * 64)).clamp(1, 1 << 14);
        let before = self.stats.lock().unwrap().evaluations;
        std::thread::scope(|s| {
            for _ in 0..self.threads {
                s.spawn(|| {
                    let mut acc = Acc::new(self, stage, exhaustive);
                    loop {
                        let lo = next.fetch_add(block, Ordering::Relaxed);
                        if lo >= n {
                            break;
                        }
                        let hi = (lo + block).min(n);
                        let mut stop = false;
                        'outer: for i in lo..hi {
                            for case in make(i) {
                                let v = guarded(|| check(&case));
                                if acc.record(&case, v) && acc.st.fails.len() >= 4 {
                                    stop = true;
                                    break 'outer;
                                }
                            }
                        }
                        if stop {
                            break;
                        }
                    }
                    self.merge(acc.st);
                });
            }
        });
        let after = self.stats.lock().unwrap().evaluations;
        self.note_stage(stage, json!({"kind": if exhaustive {"enumeration"} else {"seeded-random"}, "index_space": n, "evaluations": after - before, "wall_s": t0.elapsed().as_secs_f64()}));
    }

    /// Run a proptest strategy: `cases` cases split over all cores, each worker with its own
    /// deterministic ChaCha stream derived from the seed. The first failure of each worker is
    /// shrunk by proptest; the shrunk case is what gets reported.
    pub fn run_proptest<S, F>(&self, stage: &str, cases: u32, strat: S, check: F)
    where
        S: Strategy + Sync,
        S::Value: Serialize + Clone + std::fmt::Debug,
        F: Fn(&S::Value) -> Verdict + Sync,
    {
        self.run_proptest_with(stage, cases, || &strat, check)
    }

    /// Same, for strategies that are not `Sync` (boxed/recursive ones): every worker builds
    /// its own copy through `make`.
    pub fn run_proptest_with<S, R, G, F>(&self, stage: &str, cases: u32, make: G, check: F)
    where
        S: Strategy,
        R: std::ops::Deref<Target = S>,
        G: Fn() -> R + Sync,
        S::Value: Serialize + Clone + std::fmt::Debug,
        F: Fn(&S::Value) -> Verdict + Sync,
    {
        let t0 = Instant::now();
        let workers = self.threads.min(cases.max(1) as usize).max(1);
        let per = (cases as usize + workers - 1) / workers;
        let before = self.stats.lock().unwrap().evaluations;
        std::thread::scope(|s| {
            for w in 0..workers {
                let make = &make;
                let check = &check;
                s.spawn(move || {
                    let strat_holder = make();
                    let strat: &S = &strat_holder;
                    let mut seed_bytes = [0u8; 32];
                    let mut r = SplitMix64::derive(self.seed, &format!("{}/{}", self.property, stage), w as u64);
                    for c in seed_bytes.chunks_mut(8) {
                        c.copy_from_slice(&r.next().to_le_bytes());
                    }
                    let cfg = Config {
                        cases: per as u32,
                        failure_persistence: None,
                        max_shrink_iters: 20_000,
                        max_global_rejects: 2048,
                        ..Config::default()
                    };
                    let mut runner = TestRunner::new_with_rng(cfg, TestRng::from_seed(RngAlgorithm::ChaCha, &seed_bytes));
                    let acc = std::cell::RefCell::new(Acc::new(self, stage, false));
                    let counting = std::cell::Cell::new(true);
                    let res = runner.run(strat, |case| {
                        if counting.get() && self.has_failed() && acc.borrow().st.fails.is_empty() {
                            // another worker already found a failure: stop generating
                            return Err(TestCaseError::reject("stopped: failure found elsewhere"));
                        }
                        let v = guarded(|| check(&case));
                        let failmsg = if counting.get() {
                            let failed = acc.borrow_mut().record(&case, v.clone());
                            if failed {
                                counting.set(false);
                                Some(v.fail.clone().unwrap_or_else(|| "unlisted signature".into()))
                            } else {
                                None
                            }
                        } else {
                            // shrinking: do not count, only decide
                            let mut f = v.fail.clone();
                            if f.is_none() {
                                for k in &v.known {
                                    if !self.is_known(k) {
                                        f = Some(format!("discrepancy with signature `{}`", k));
                                    }
                                }
                            }
                            f
                        };
                        match failmsg {
                            Some(m) => Err(TestCaseError::fail(m)),
                            None => Ok(()),
                        }
                    });
                    let mut st = acc.into_inner().st;
                    if let Err(TestError::Fail(reason, value)) = res {
                        // replace the unshrunk failure by the shrunk one
                        st.fails.clear();
                        st.fails.push((stage.to_string(), serde_json::to_value(&value).unwrap_or(Value::Null), reason.message().to_string()));
                    } else if let Err(TestError::Abort(reason)) = res {
                        if !self.has_failed() {
                            st.stages.push(json!({"stage": stage, "abort": reason.message().to_string()}));
                        }
                    }
                    self.merge(st);
                });
            }
        });
        let after = self.stats.lock().unwrap().evaluations;
        self.note_stage(stage, json!({"kind": "proptest", "cases_requested": cases, "evaluations": after - before, "wall_s": t0.elapsed().as_secs_f64()}));
    }

    /// Replays all regression cases stored under /verif/regress/<property>/ through `check`.
    pub fn run_regress<C, F>(&self, check: F)
    where
        C: Serialize + DeserializeOwned,
        F: Fn(&C) -> Verdict,
    {
        let dir = format!("{}/regress/{}", VERIF_ROOT, self.property);
        let mut files: Vec<_> = match std::fs::read_dir(&dir) {
            Ok(rd) => rd.filter_map(|e| e.ok()).map(|e| e.path()).filter(|p| p.extension().map(|e| e == "json").unwrap_or(false)).collect(),
            Err(_) => return,
        };
        files.sort();
        let mut acc = Acc::new(self, "regress", false);
        for f in files {
            let txt = std::fs::read_to_string(&f).unwrap_or_default();
            let v: Value = match serde_json::from_str(&txt) {
                Ok(v) => v,
                Err(_) => continue,
            };
            if let Some(want) = v.get("check").and_then(|c| c.as_str()) {
                if want != std::any::type_name::<C>() && !std::any::type_name::<C>().ends_with(want) {
                    continue;
                }
            }
            if let Ok(case) = serde_json::from_value::<C>(v["case"].clone()) {
                let verdict = guarded(|| check(&case));
                acc.record(&case, verdict);
            }
        }
        self.merge(acc.st);
    }

    /// Write evidence, print KNOWN-FINDING / VIOLATION lines, return the process exit code.
    pub fn finish(&self, rule: &str, assumptions: &[&str], level: &str, merge_from: Option<&str>, out: &str) -> i32 {
        let mut st = std::mem::take(&mut *self.stats.lock().unwrap());
        let wall = self.start.elapsed().as_secs_f64();
        let mut violations = 0;
        let mut lines = vec![];
        // choose the smallest failing case
        st.fails.sort_by_key(|(_, c, _)| serde_json::to_string(c).map(|s| s.len()).unwrap_or(0));
        let mut seen = HashSet::new();
        for (stage, case, msg) in st.fails.iter().take(3) {
            let body = json!({"property": self.property, "stage": stage, "variant": self.variant, "seed": self.seed, "message": msg, "case": case});
            let txt = serde_json::to_string_pretty(&body).unwrap();
            let h = fnv(serde_json::to_string(case).unwrap().as_bytes());
            if !seen.insert(h) {
                continue;
            }
            let dir = format!("{}/replays/{}", VERIF_ROOT, self.property);
            let _ = std::fs::create_dir_all(&dir);
            let path = format!("{}/{:016x}.json", dir, h);
            let _ = std::fs::write(&path, txt);
            violations += 1;
            lines.push(format!("VIOLATION property={} replay={}", self.property, path));
            eprintln!("[{}] violation in stage {}: {}\n    case: {}", self.property, stage, msg, case);
        }
        for (sig, n) in &st.known {
            let desc = self.known.iter().find(|k| &k.signature == sig).map(|k| k.description.clone()).unwrap_or_default();
            println!("KNOWN-FINDING: property={} signature={} occurrences={} {}", self.property, sig, n, desc);
        }
        let mut cov = json!({
            "evaluations": st.evaluations,
            "distinct_nontrivial": st.distinct_nontrivial(),
            "nontrivial_total": st.nontrivial,
            "rule": rule,
            "samples": st.samples,
            "class_histogram": st.classes,
            "excluded": st.excluded,
            "known_finding_occurrences": st.known,
            "known_finding_examples": st.known_examples,
            "stages": st.stages,
            "feature_sets": [self.variant],
            "distinct_count_capped": st.distinct_capped,
        });
        let mut total_viol = violations;
        let mut total_wall = wall;
        if let Some(p) = merge_from {
            if let Ok(txt) = std::fs::read_to_string(p) {
                if let Ok(prev) = serde_json::from_str::<Value>(&txt) {
                    merge_cov(&mut cov, &prev["coverage"]);
                    total_viol += prev["violations"].as_i64().unwrap_or(0) as i32;
                    total_wall += prev["wall_s"].as_f64().unwrap_or(0.0);
                }
            }
        }
        let ev = json!({
            "property_id": self.property,
            "tier": self.tier.name(),
            "seed": self.seed,
            "level": level,
            "coverage": cov,
            "assumptions": assumptions,
            "wall_s": total_wall,
            "violations": total_viol,
        });
        if let Some(parent) = std::path::Path::new(out).parent() {
            let _ = std::fs::create_dir_all(parent);
        }
        std::fs::write(out, serde_json::to_string_pretty(&ev).unwrap()).expect("cannot write evidence");
        for l in &lines {
            println!("{}", l);
        }
        println!(
            "[{}] {} tier={} variant={} seed={} evaluations={} nontrivial={} distinct_nontrivial={} violations={} wall={:.1}s",
            self.property,
            if violations == 0 { "OK" } else { "FAILED" },
            self.tier.name(),
            self.variant,
            self.seed,
            st.evaluations,
            st.nontrivial,
            st.distinct_nontrivial(),
            violations,
            wall
        );
        if violations > 0 {
            1
        } else {
            0
        }
    }
}

fn merge_cov(cov: &mut Value, prev: &Value) {
    for k in ["evaluations", "distinct_nontrivial", "nontrivial_total"] {
        let a = cov[k].as_u64().unwrap_or(0) + prev[k].as_u64().unwrap_or(0);
        cov[k] = json!(a);
    }
    for k in ["class_histogram", "excluded", "known_finding_occurrences"] {
        if let Some(pm) = prev[k].as_object() {
            for (name, n) in pm {
                let a = cov[k][name].as_u64().unwrap_or(0) + n.as_u64().unwrap_or(0);
                cov[k][name] = json!(a);
            }
        }
    }
    if let Some(pm) = prev["known_finding_examples"].as_object() {
        for (name, n) in pm {
            if cov["known_finding_examples"].get(name).is_none() {
                cov["known_finding_examples"][name] = n.clone();
            }
        }
    }
    for k in ["samples", "stages", "feature_sets"] {
        let mut a = prev[k].as_array().cloned().unwrap_or_default();
        a.extend(cov[k].as_array().cloned().unwrap_or_default());
        if k == "samples" {
            // interleave so both feature sets are represented
            a.truncate(2 * MAX_SAMPLES);
        }
        cov[k] = Value::Array(a);
    }
    if prev["distinct_count_capped"].as_bool().unwrap_or(false) {
        cov["distinct_count_capped"] = json!(true);
    }
}

/// Run the oracle; a panic inside it (library code or harness) is a failure of the case.
pub fn guarded<F: FnOnce() -> Verdict>(f: F) -> Verdict {
    match catch_unwind(AssertUnwindSafe(f)) {
        Ok(v) => v,
        Err(p) => Verdict::fail(format!("panic: {}", panic_message(&p))),
    }
}

pub fn panic_message(p: &Box<dyn std::any::Any + Send>) -> String {
    let loc = LAST_PANIC_LOC.with(|l| l.borrow().clone());
    let msg = if let Some(s) = p.downcast_ref::<&str>() {
        s.to_string()
    } else if let Some(s) = p.downcast_ref::<String>() {
        s.clone()
    } else {
        "<non-string panic>".to_string()
    };
    format!("{} at {}", msg, loc)
}

thread_local! {
    pub static LAST_PANIC_LOC: std::cell::RefCell<String> = std::cell::RefCell::new(String::new());
}

pub fn install_quiet_panic_hook() {
    std::panic::set_hook(Box::new(|info| {
        let loc = info.location().map(|l| format!("{}:{}", l.file(), l.line())).unwrap_or_default();
        LAST_PANIC_LOC.with(|l| *l.borrow_mut() = loc);
    }));
}

/// Watchdog: if no oracle execution completes for `stall_s` seconds, or the whole run exceeds
/// `total_s`, the process exits with code 2 (inconclusive) — never a violation.
pub fn spawn_watchdog(ctx: &'static Ctx, stall_s: u64, total_s: u64) {
    std::thread::spawn(move || {
        let mut last = ctx.heartbeat.load(Ordering::Relaxed);
        let mut last_change = Instant::now();
        loop {
            std::thread::sleep(std::time::Duration::from_secs(1));
            let now = ctx.heartbeat.load(Ordering::Relaxed);
            if now != last {
                last = now;
                last_change = Instant::now();
            }
            if last_change.elapsed().as_secs() > stall_s {
                println!("[{}] INCONCLUSIVE: watchdog, no case completed for {} s", ctx.property, stall_s);
                std::process::exit(2);
            }
            if ctx.start.elapsed().as_secs() > total_s {
                println!("[{}] INCONCLUSIVE: watchdog, run exceeded {} s", ctx.property, total_s);
                std::process::exit(2);
            }
        }
    });
}

/// Helper for shrinking-friendly index mapping (monotone, not modulo).
pub fn scale(i: u16, len: usize) -> usize {
    ((i as usize) * len) >> 16
}

/// Simple generic value tree helper: draw one value from a strategy with a seeded runner.
pub fn sample_strategy<S: Strategy>(s: &S, seed: u64, n: usize) -> Vec<S::Value> {
    let mut seed_bytes = [0u8; 32];
    let mut r = SplitMix64::new(seed);
    for c in seed_bytes.chunks_mut(8) {
        c.copy_from_slice(&r.next().to_le_bytes());
    }
    let mut runner = TestRunner::new_with_rng(Config::default(), TestRng::from_seed(RngAlgorithm::ChaCha, &seed_bytes));
    (0..n).filter_map(|_| s.new_tree(&mut runner).ok().map(|t| t.current())).collect()
}

pub fn guarded_replay<F: FnOnce() -> Result<Verdict, String>>(f: F) -> Result<Verdict, String> {
    match catch_unwind(AssertUnwindSafe(f)) {
        Ok(v) => v,
        Err(p) => Ok(Verdict::fail(format!("panic: {}", panic_message(&p)))),
    }
}
