//! Specifications of events built through the public constructors (C09, C19): a serialisable
//! description, the builder calls that realise it, and the model of what was built.

use proptest::prelude::*;
use quick_xml::events::{BytesCData, BytesDecl, BytesEnd, BytesPI, BytesStart, BytesText, Event};
use serde::{Deserialize, Serialize};

#[derive(Clone, Debug, Serialize, Deserialize, PartialEq)]
pub enum StartOp {
    Push(String, String),
    Extend(Vec<(String, String)>),
    With(Vec<(String, String)>),
    SetName(String),
    Clear,
}

#[derive(Clone, Debug, Serialize, Deserialize, PartialEq)]
pub enum Content {
    Text(String),
    CData(String),
    PI(String),
    Empty,
    Inner(Vec<EvSpec>),
}

#[derive(Clone, Debug, Serialize, Deserialize, PartialEq)]
pub enum EvSpec {
    Start(String, Vec<StartOp>),
    Empty(String, Vec<StartOp>),
    End(String),
    Text(String),
    /// written through `BytesCData::escaped` (all pieces)
    CData(String),
    Comment(String),
    Decl(String, Option<String>, Option<String>),
    PI(String),
    DocType(String),
    /// `Writer::create_element(name).with_attribute(s)...write_*`
    Element(String, Vec<(String, String)>, Content),
    Eof,
}

/// What reading back must give (after coalescing).
#[derive(Clone, Debug, PartialEq)]
pub enum Norm {
    Start(String, Vec<(String, String)>),
    Empty(String, Vec<(String, String)>),
    End(String),
    Text(String),
    CData(String),
    Comment(String),
    Decl(String, Option<String>, Option<String>),
    /// content, and the target as the constructor / the reader splits it off
    PI(String, String),
    DocType(String),
}

pub fn apply_ops(name: &str, ops: &[StartOp]) -> (String, Vec<(String, String)>) {
    let mut name = name.to_string();
    let mut attrs: Vec<(String, String)> = vec![];
    for op in ops {
        match op {
            StartOp::Push(k, v) => attrs.push((k.clone(), v.clone())),
            StartOp::Extend(l) | StartOp::With(l) => attrs.extend(l.iter().cloned()),
            StartOp::SetName(n) => name = n.clone(),
            StartOp::Clear => attrs.clear(),
        }
    }
    (name, attrs)
}

/// A copy / ownership conversion chosen by `k` (a pure function of the spec): what was built
/// must be the same event whichever way it is handed on.
fn convert_start(s: BytesStart<'static>, k: usize) -> BytesStart<'static> {
    match k % 6 {
        0 => s,
        1 => s.to_owned(),
        2 => s.borrow().into_owned(),
        3 => s.clone(),
        4 => s.borrow().to_owned().into_owned(),
        _ => match std::str::from_utf8(&s) {
            Ok(text) => BytesStart::from_content(text.to_string(), s.name().as_ref().len()),
            Err(_) => s,
        },
    }
}

fn apply_op<'a>(s: &mut BytesStart<'a>, op: &StartOp) {
    match op {
        StartOp::Push(k, v) => s.push_attribute((k.as_str(), v.as_str())),
        StartOp::Extend(l) => {
            s.extend_attributes(l.iter().map(|(k, v)| (k.as_str(), v.as_str())));
        }
        StartOp::With(l) => {
            let t = std::mem::replace(s, BytesStart::new(""));
            *s = t.with_attributes(l.iter().map(|(k, v)| (k.as_str(), v.as_str())));
        }
        StartOp::SetName(n) => {
            s.set_name(n.as_bytes());
        }
        StartOp::Clear => {
            s.clear_attributes();
        }
    }
}

pub fn build_start(name: &str, ops: &[StartOp]) -> BytesStart<'static> {
    // the seed of the conversions: a pure function of the spec
    let mut k = name.len() + 7 * ops.len();
    let mut s = match k % 3 {
        0 => BytesStart::new(name.to_string()),
        1 => BytesStart::from(quick_xml::name::QName(name.as_bytes())).into_owned(),
        _ => BytesStart::from_content(name.to_string(), name.len()),
    };
    for op in ops {
        // a conversion between any two builder calls (edits continue on the copy)
        k = k.wrapping_mul(31).wrapping_add(11);
        s = convert_start(s, k >> 2);
        if (k >> 7) % 3 == 0 {
            // the builder call is made on a BORROWING copy of what was built so far (the state in
            // which a start event comes from the reader or from from_content(&str, n))
            let so_far = s.clone();
            let mut b = so_far.borrow();
            apply_op(&mut b, op);
            s = b.into_owned();
        } else {
            apply_op(&mut s, op);
        }
    }
    k = k.wrapping_mul(31).wrapping_add(11);
    convert_start(s, k >> 2)
}

fn convert_event(e: Event<'static>, k: usize) -> Event<'static> {
    match k % 4 {
        0 => e,
        1 => e.borrow().into_owned(),
        2 => e.clone(),
        _ => e.clone().into_owned().borrow().into_owned(),
    }
}

/// The plain (non-element-builder) events of a spec; `Element` is handled by the writers.
pub fn build_events(spec: &EvSpec) -> Vec<Event<'static>> {
    let v: Vec<Event<'static>> = match spec {
        EvSpec::Start(n, ops) => vec![Event::Start(build_start(n, ops))],
        EvSpec::Empty(n, ops) => vec![Event::Empty(build_start(n, ops))],
        EvSpec::End(n) => vec![Event::End(match n.len() % 3 {
            0 => BytesEnd::new(n.clone()),
            1 => BytesStart::new(n.as_str()).to_end().into_owned(),
            _ => BytesEnd::from(quick_xml::name::QName(n.as_bytes())).into_owned(),
        })],
        EvSpec::Text(s) => vec![Event::Text(BytesText::new(s).into_owned())],
        EvSpec::CData(s) => BytesCData::escaped(s).map(|c| Event::CData(c.into_owned())).collect(),
        EvSpec::Comment(s) => vec![Event::Comment(BytesText::from_escaped(s.clone()))],
        EvSpec::Decl(v, e, s) => vec![Event::Decl(BytesDecl::new(v, e.as_deref(), s.as_deref()))],
        EvSpec::PI(s) => vec![Event::PI(BytesPI::new(s.clone()))],
        EvSpec::DocType(s) => vec![Event::DocType(BytesText::from_escaped(s.clone()))],
        EvSpec::Eof => vec![Event::Eof],
        EvSpec::Element(..) => vec![],
    };
    let k = format!("{:?}", spec).len();
    v.into_iter().enumerate().map(|(i, e)| convert_event(e, k + i)).collect()
}

pub fn norm_of(specs: &[EvSpec], out: &mut Vec<Norm>) {
    for s in specs {
        match s {
            EvSpec::Start(n, ops) => {
                let (n, a) = apply_ops(n, ops);
                out.push(Norm::Start(n, a));
            }
            EvSpec::Empty(n, ops) => {
                let (n, a) = apply_ops(n, ops);
                out.push(Norm::Empty(n, a));
            }
            EvSpec::End(n) => out.push(Norm::End(n.clone())),
            EvSpec::Text(t) => out.push(Norm::Text(t.clone())),
            EvSpec::CData(t) => out.push(Norm::CData(t.clone())),
            EvSpec::Comment(t) => out.push(Norm::Comment(t.clone())),
            EvSpec::Decl(v, e, s) => out.push(Norm::Decl(v.clone(), e.clone(), s.clone())),
            EvSpec::PI(t) => out.push(Norm::PI(t.clone(), String::from_utf8_lossy(BytesPI::new(t.as_str()).target()).into_owned())),
            EvSpec::DocType(t) => out.push(Norm::DocType(t.clone())),
            EvSpec::Eof => {}
            EvSpec::Element(n, attrs, content) => match content {
                Content::Empty => out.push(Norm::Empty(n.clone(), attrs.clone())),
                Content::Text(t) => {
                    out.push(Norm::Start(n.clone(), attrs.clone()));
                    out.push(Norm::Text(t.clone()));
                    out.push(Norm::End(n.clone()));
                }
                Content::CData(t) => {
                    out.push(Norm::Start(n.clone(), attrs.clone()));
                    out.push(Norm::CData(t.clone()));
                    out.push(Norm::End(n.clone()));
                }
                Content::PI(t) => {
                    out.push(Norm::Start(n.clone(), attrs.clone()));
                    out.push(Norm::PI(t.clone(), String::from_utf8_lossy(BytesPI::new(t.as_str()).target()).into_owned()));
                    out.push(Norm::End(n.clone()));
                }
                Content::Inner(inner) => {
                    out.push(Norm::Start(n.clone(), attrs.clone()));
                    norm_of(inner, out);
                    out.push(Norm::End(n.clone()));
                }
            },
        }
    }
}

/// adjacent text events coalesce, adjacent CDATA pieces coalesce, empty text is dropped
pub fn coalesce(v: Vec<Norm>) -> Vec<Norm> {
    let mut out: Vec<Norm> = vec![];
    for n in v {
        match (out.last_mut(), n) {
            (_, Norm::Text(t)) if t.is_empty() => {}
            (Some(Norm::Text(a)), Norm::Text(b)) => a.push_str(&b),
            (Some(Norm::CData(a)), Norm::CData(b)) => a.push_str(&b),
            (_, n) => out.push(n),
        }
    }
    out
}

// ---------------------------------------------------------------------------------------------
// strategies

pub fn name_strategy() -> impl Strategy<Value = String> {
    prop::sample::select(vec!["a", "b", "ab", "a:b", "p:q", "_x", "x-1", "x.y", "\u{e9}l\u{e9}ment", "\u{4e2d}", "xmlns", "A", "root", "very-long-element-name", "n123456789012345", "n1234567890123456", "a-name-that-is-longer-than-thirty-two-bytes", "a.name.that.is.longer.than.sixty-four.bytes.so.that.block.wise.scanners.iterate"]).prop_map(|s| s.to_string())
}

/// markup-heavy payload strings
pub fn payload_strategy() -> impl Strategy<Value = String> {
    let piece = prop_oneof![
        6 => prop::sample::select(vec!["<", ">", "&", "'", "\"", "]]>", "]]", "]", "--", "-", "?>", "?", "=", "/", " ", "\t", "\n", "\r", "\r\n", "&amp;", "&lt;", "&#32;", "&#x41;", "&unknown;", "<!--", "-->", "<![CDATA[", "</a>", "<a>", "x", "y", "text", "\u{e9}", "\u{20ac}", "\u{1F600}", "\u{a0}", "\u{2028}", "\u{c}", "\u{b}", "\u{85}", "\u{3000}", "\u{feff}", "\u{feff}x"]).prop_map(|s| s.to_string()),
        1 => any::<char>().prop_filter("no U+FEFF (a leading one is a byte-order mark and is stripped by the reader)", |c| *c != '\u{feff}').prop_map(|c| c.to_string()),
        1 => "[a-z ]{0,8}",
    ];
    prop_oneof![
        30 => prop::collection::vec(piece.clone(), 0..8).prop_map(|v| v.concat()),
        // long payloads (past scanner block sizes and initial capacities)
        1 => (prop::collection::vec(piece, 1..4), prop::sample::select(vec![16usize, 17, 31, 33, 64, 65, 129, 300])).prop_map(|(v, n)| {
            let unit = v.concat();
            let mut out = String::new();
            while out.chars().count() < n {
                out.push_str(if unit.is_empty() { "x" } else { &unit });
            }
            out
        }),
    ]
}

fn without(s: String, needles: &[&str]) -> String {
    let mut s = s;
    loop {
        let mut changed = false;
        for n in needles {
            if s.contains(n) {
                s = s.replace(n, "_");
                changed = true;
            }
        }
        if !changed {
            return s;
        }
    }
}

/// comment content: no `--`, does not end with `-`, no `>`-terminator issue
pub fn comment_strategy() -> impl Strategy<Value = String> {
    payload_strategy().prop_map(|s| {
        let mut s = without(s, &["--"]);
        if s.ends_with('-') {
            s.push(' ');
        }
        s
    })
}

pub fn pi_strategy() -> impl Strategy<Value = String> {
    (prop::sample::select(vec!["pi", "target", "xml-stylesheet", "p"]), prop::sample::select(vec![" ", " ", "\t", "\n", "\r\n", "  "]), payload_strategy()).prop_map(|(t, sep, s)| {
        let body = without(s, &["?>"]);
        let body = body.trim_start().to_string();
        if body.is_empty() {
            t.to_string()
        } else {
            // the target ends at the first XML blank, whichever of the four it is
            format!("{}{}{}", t, sep, body)
        }
    })
}

pub fn doctype_strategy() -> impl Strategy<Value = String> {
    prop::sample::select(vec!["r", "html", "r SYSTEM 'x.dtd'", "r [<!ELEMENT r (#PCDATA)>]", "r [<!ENTITY e 'v'><!ENTITY f \"w\">]", "r PUBLIC \"-//X//Y\" \"z\""]).prop_map(|s| s.to_string())
}

pub fn attrs_strategy(max: usize) -> impl Strategy<Value = Vec<(String, String)>> {
    prop::collection::vec((prop::sample::select(vec!["k", "a", "b", "a:b", "xmlns", "xmlns:p", "xml:lang", "\u{e9}"]).prop_map(|s| s.to_string()), payload_strategy()), 0..=max)
}

pub fn ops_strategy() -> impl Strategy<Value = Vec<StartOp>> {
    let op = prop_oneof![
        5 => (prop::sample::select(vec!["k", "a", "b", "a:b", "xmlns:p", "\u{e9}"]), payload_strategy()).prop_map(|(k, v)| StartOp::Push(k.to_string(), v)),
        2 => attrs_strategy(3).prop_map(StartOp::Extend),
        2 => attrs_strategy(3).prop_map(StartOp::With),
        2 => name_strategy().prop_map(StartOp::SetName),
        1 => Just(StartOp::Clear),
    ];
    prop_oneof![20 => prop::collection::vec(op.clone(), 0..5), 1 => prop::collection::vec(op, 20..45)]
}

pub fn decl_strategy() -> impl Strategy<Value = EvSpec> {
    (prop::sample::select(vec!["1.0", "1.1"]), prop::option::of(prop::sample::select(vec!["UTF-8", "utf-8", "Utf-8"])), prop::option::of(prop::sample::select(vec!["yes", "no"]))).prop_map(|(v, e, s)| EvSpec::Decl(v.to_string(), e.map(|x| x.to_string()), s.map(|x| x.to_string())))
}

/// one event spec; `with_eof` excluded here (Eof is appended last by the sequence strategy)
pub fn spec_strategy(depth: u32) -> BoxedStrategy<EvSpec> {
    let leaf = prop_oneof![
        4 => (name_strategy(), ops_strategy()).prop_map(|(n, o)| EvSpec::Start(n, o)),
        3 => (name_strategy(), ops_strategy()).prop_map(|(n, o)| EvSpec::Empty(n, o)),
        4 => name_strategy().prop_map(EvSpec::End),
        4 => payload_strategy().prop_map(EvSpec::Text),
        2 => payload_strategy().prop_map(EvSpec::CData),
        2 => comment_strategy().prop_map(EvSpec::Comment),
        1 => decl_strategy(),
        2 => pi_strategy().prop_map(EvSpec::PI),
        1 => doctype_strategy().prop_map(EvSpec::DocType),
    ];
    if depth == 0 {
        return leaf.boxed();
    }
    let content = prop_oneof![
        2 => payload_strategy().prop_map(Content::Text),
        1 => payload_strategy().prop_map(|s| Content::CData(without(s, &["]]>"]))),
        1 => pi_strategy().prop_map(Content::PI),
        1 => Just(Content::Empty),
        1 => prop::collection::vec(spec_strategy(depth - 1), 0..3).prop_map(Content::Inner),
    ];
    prop_oneof![
        8 => leaf,
        3 => (name_strategy(), attrs_strategy(3), content).prop_map(|(n, a, c)| EvSpec::Element(n, a, c)),
    ]
    .boxed()
}

pub fn has_special(s: &str) -> bool {
    s.chars().any(|c| matches!(c, '<' | '>' | '&' | '\'' | '"' | ']' | '-' | '?'))
}
