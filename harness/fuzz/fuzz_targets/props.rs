#![no_main]
//! One coverage-guided target for all byte-level properties; the property is chosen by the
//! environment variable QXV_FUZZ_PROP (read once). The semantic oracle is inside the target.
use libfuzzer_sys::fuzz_target;
use std::sync::OnceLock;

static PROP: OnceLock<String> = OnceLock::new();
static KNOWN: OnceLock<Vec<qxv::engine::KnownFinding>> = OnceLock::new();

fuzz_target!(|data: &[u8]| {
    let prop = PROP.get_or_init(|| {
        qxv::engine::install_quiet_panic_hook();
        std::env::var("QXV_FUZZ_PROP").unwrap_or_else(|_| "C01".to_string())
    });
    let known = KNOWN.get_or_init(qxv::engine::load_known_findings);
    qxv::fuzz::fuzz_one(prop, data, known);
});
