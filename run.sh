#!/bin/bash
# run.sh <quick|thorough> <Cxx>     build the harness from /repo's working tree, run one check
# run.sh replay <file.json>         re-run one stored case through its oracle
# run.sh build                      build both feature sets (MANIFEST.setup_cmd)
# exit: 0 held / 1 violation (VIOLATION line printed) / 2 inconclusive (hang, OOM, build problem)
set -u
cd "$(dirname "$0")"
ROOT=$(pwd)
export CARGO_NET_OFFLINE=true
H=$ROOT/harness

build() { # $1 = variant
  local v=$1 feat=""
  [ "$v" = full ] && feat="--features full"
  ( cd "$H" && cargo build --release --offline $feat --target-dir "$H/target/$v" ) >"$H/target-$v.log" 2>&1
  local rc=$?
  if [ $rc -ne 0 ]; then
    echo "INCONCLUSIVE: build of feature set $v failed (see $H/target-$v.log)"; grep -A8 '^error' "$H/target-$v.log" | head -40
    exit 2
  fi
}

case "${1:-}" in
  build)
    mkdir -p "$H/target"
    build full; build min; echo "built"; exit 0 ;;
  quick|thorough)
    tier=$1; id=${2:?property id}
    seed=${VERIF_SEED:-1}
    EVD=${QXV_EVIDENCE_DIR:-$ROOT/evidence}
    mkdir -p "$EVD" "$H/target"
    build full
    variants=$("$H/target/full/release/qxv" variants "$id") || { echo "unknown property $id"; exit 3; }
    rc=0; merge=""
    rm -f "$EVD/.$id.part.json"
    nvar=$(echo $variants | wc -w); k=0
    for v in $variants; do
      k=$((k+1))
      [ "$v" = min ] && build min
      out="$EVD/$id.json"
      [ $k -lt $nvar ] && out="$EVD/.$id.part.json"
      "$H/target/$v/release/qxv" check "$id" --tier "$tier" --seed "$seed" $merge --out "$out"
      r=$?
      if [ $r -eq 1 ]; then rc=1; elif [ $r -ne 0 ] && [ $rc -eq 0 ]; then rc=2; fi
      merge="--merge-from $out"
    done
    rm -f "$EVD/.$id.part.json"
    exit $rc ;;
  replay)
    f=${2:?replay file}
    v=$(python3 -c "import json,sys; print(json.load(open(sys.argv[1])).get('variant','full'))" "$f" 2>/dev/null || echo full)
    mkdir -p "$H/target"
    build "$v"
    "$H/target/$v/release/qxv" replay "$f"; exit $? ;;
  *)
    echo "usage: run.sh <quick|thorough> <Cxx> | replay <file> | build"; exit 3 ;;
esac
