#!/bin/bash
# run.sh <quick|thorough> <Cxx>     build the harness from /repo's working tree, run one check
# run.sh replay <file.json>         re-run one stored case through its oracle
# run.sh build                      build both feature sets (MANIFEST.setup_cmd)
# exit: 0 held / 1 violation (VIOLATION line printed) / 2 inconclusive (hang, OOM, build problem)
set -u
cd "$(dirname "$0")"
ROOT=$(pwd)
export CARGO_NET_OFFLINE=true
H=$ROOT/harness

build() { # $1 = variant
  local v=$1 feat=""
  [ "$v" = full ] && feat="--features full"
  [ "$v" = html ] && feat="--features html"
  ( cd "$H" && cargo build --release --offline $feat --target-dir "$H/target/$v" ) >"$H/target-$v.log" 2>&1
  local rc=$?
  if [ $rc -ne 0 ]; then
    echo "INCONCLUSIVE: build of feature set $v failed (see $H/target-$v.log)"; grep -A8 '^error' "$H/target-$v.log" | head -40
    exit 2
  fi
}

fuzz_campaign() { # $1 = property, $2 = seed ; returns 0 ok / 1 violation / 2 inconclusive
  local id=$1 seed=$2 F=$H/fuzz W runs=${QXV_FUZZ_RUNS:-1500000} inst=${QXV_FUZZ_INSTANCES:-8}
  W=$(mktemp -d "$F/campaign-$id-XXXXXX")
  ( cd "$F" && cargo +nightly fuzz build --fuzz-dir . props ) >"$H/target-fuzz.log" 2>&1 || { echo "INCONCLUSIVE: fuzz target does not build (see $H/target-fuzz.log)"; rm -rf "$W"; return 2; }
  local bin=$F/target/x86_64-unknown-linux-gnu/release/props
  [ -x "$bin" ] || { echo "INCONCLUSIVE: fuzz binary not found"; rm -rf "$W"; return 2; }
  "$H/target/full/release/qxv" fuzz-seeds "$id" "$W/seeds" >/dev/null
  local k pids=""
  for k in $(seq 1 $inst); do
    mkdir -p "$W/corpus$k" "$W/art$k"; cp "$W/seeds/"* "$W/corpus$k/" 2>/dev/null
    ( QXV_FUZZ_PROP=$id "$bin" "$W/corpus$k" -runs=$runs -seed=$((seed * 100 + k)) -max_total_time=${QXV_FUZZ_MAXTIME:-1500} -len_control=0 -max_len=192 -timeout=20 -rss_limit_mb=4096 -artifact_prefix="$W/art$k/" >"$W/log$k" 2>&1 ) &
    pids="$pids $!"
  done
  wait $pids
  local viol=0 execs=0 a
  execs=$(grep -ho 'Done [0-9]* runs' "$W"/log* | awk '{s+=$2} END {print s+0}')
  for a in "$W"/art*/*; do
    [ -f "$a" ] || continue
    case "$a" in *timeout-*|*oom-*) echo "INCONCLUSIVE: libFuzzer reported $(basename "$a") (kept in $W)"; [ $viol -eq 0 ] && viol=2; continue;; esac
    "$H/target/full/release/qxv" fuzz-artifact "$id" "$a" && echo "note: artifact $(basename "$a") does not reproduce through the oracle" || viol=1
  done
  local stats
  stats=$("$H/target/full/release/qxv" fuzz-stats "$id" "$W"/corpus* 2>/dev/null | tail -1)
  python3 - "$EVD/$id.json" "$execs" "$inst" "$runs" "$stats" <<'PY'
import json, sys
p, execs, inst, runs = sys.argv[1], int(sys.argv[2]), int(sys.argv[3]), int(sys.argv[4])
try:
    e = json.load(open(p))
    e["coverage"]["fuzz_campaign"] = {"engine": "libFuzzer (cargo-fuzz 0.13), oracle inside the target", "instances": inst, "runs_requested_per_instance": runs, "executions": execs}
    try:
        e["coverage"]["fuzz_campaign"]["final_corpora_through_the_oracle"] = json.loads(sys.argv[5])
    except Exception:
        pass
    e["coverage"]["evaluations"] += execs
    json.dump(e, open(p, "w"), indent=1)
except Exception as ex:
    print("note: could not add fuzz statistics to the evidence:", ex)
PY
  echo "[$id] fuzz campaign: $execs executions in $inst instances, result=$viol"
  [ $viol -eq 0 ] && rm -rf "$W"
  return $viol
}

case "${1:-}" in
  build)
    mkdir -p "$H/target"
    build full; build min; build html; echo "built"; exit 0 ;;
  quick|thorough)
    tier=$1; id=${2:?property id}
    seed=${VERIF_SEED:-1}
    EVD=${QXV_EVIDENCE_DIR:-$ROOT/evidence}
    mkdir -p "$EVD" "$H/target"
    build full
    variants=$("$H/target/full/release/qxv" variants "$id") || { echo "unknown property $id"; exit 3; }
    rc=0; merge=""
    rm -f "$EVD/.$id.part.json"
    nvar=$(echo $variants | wc -w); k=0
    for v in $variants; do
      k=$((k+1))
      [ "$v" != full ] && build "$v"
      out="$EVD/$id.json"
      [ $k -lt $nvar ] && out="$EVD/.$id.part.json"
      "$H/target/$v/release/qxv" check "$id" --tier "$tier" --seed "$seed" $merge --out "$out"
      r=$?
      if [ $r -eq 1 ]; then rc=1; elif [ $r -ne 0 ] && [ $rc -eq 0 ]; then rc=2; fi
      merge="--merge-from $out"
    done
    rm -f "$EVD/.$id.part.json"
    # thorough tier of the byte-level properties: coverage-guided campaign (libFuzzer) whose
    # target contains the same oracle; fixed work (-runs), 8 independent instances
    if [ "$tier" = thorough ] && [ $rc -eq 0 ] && echo " C01 C02 C03 C04 C07 C08 C10 C11 C14 C15 C16 C18 " | grep -q " $id "; then
      fuzz_campaign "$id" "$seed" || rc=$?
    fi
    exit $rc ;;
  replay)
    f=${2:?replay file}
    v=$(python3 -c "import json,sys; print(json.load(open(sys.argv[1])).get('variant','full'))" "$f" 2>/dev/null || echo full)
    mkdir -p "$H/target"
    build "$v"
    "$H/target/$v/release/qxv" replay "$f"; exit $? ;;
  *)
    echo "usage: run.sh <quick|thorough> <Cxx> | replay <file> | build"; exit 3 ;;
esac
